package main

import (
	"context"
	"fmt"
	"math/rand"
	"os"
	"path/filepath"
	"sort"
	"sync"
	"time"

	"github.com/mutagen-io/mutagen/pkg/filesystem/behavior"
	"github.com/mutagen-io/mutagen/pkg/synchronization"
	"github.com/mutagen-io/mutagen/pkg/synchronization/core"
	"github.com/mutagen-io/mutagen/pkg/synchronization/rsync"

	"verif/internal/fsx"
	"verif/internal/vk"
)

const (
	c42Interval  = 1 * time.Second
	c42PollBound = 10 * time.Second // 2 polling intervals + generous slack; judged only if the heartbeat stayed healthy
	c42QuietTime = 1300 * time.Millisecond
)

var c42WalkOptions = fsx.WalkOptions{
	SymbolicLinkMode: core.SymbolicLinkMode_SymbolicLinkModePortable,
	PermissionsMode:  core.PermissionsMode_PermissionsModePortable,
}

// pollOnce waits for one Poll return or the timeout; it reports whether Poll returned because of a signal.
func pollOnce(ep synchronization.Endpoint, timeout time.Duration) (bool, time.Duration) {
	ctx, cancel := context.WithTimeout(context.Background(), timeout)
	defer cancel()
	start := time.Now()
	ep.Poll(ctx)
	el := time.Since(start)
	return ctx.Err() == nil, el
}

// drain waits until no poll signal arrived for a whole quiet window (bounded).
func drain(ep synchronization.Endpoint) bool {
	for i := 0; i < 20; i++ {
		if signalled, _ := pollOnce(ep, c42QuietTime); !signalled {
			return true
		}
	}
	return false
}

type c42Worker struct {
	r    *vk.Run
	id   int
	rng  *rand.Rand
	root string
	src  string
	le   *localEndpoint
	hb   *heartbeat
	n    int
}

func c42() {
	r := vk.Start("C42", "exploration")
	workers := r.Pick(8, 12)
	rounds := r.Pick(24, 60) // per worker
	base := r.Scratch()
	hb := startHeartbeat(filepath.Join(base, "heartbeat"))
	defer hb.close()
	var wg sync.WaitGroup
	for w := 0; w < workers; w++ {
		wg.Add(1)
		go func(w int) {
			defer wg.Done()
			rng := r.Rand(fmt.Sprintf("worker-%d", w))
			root := filepath.Join(base, fmt.Sprintf("w%d", w), "beta")
			src := filepath.Join(base, fmt.Sprintf("w%d", w), "alpha")
			os.MkdirAll(src, 0o755)
			fsxMu.Lock()
			tree := fsx.RandomTree(rng, fsx.TreeConfig{MaxEntries: 25, MaxDepth: 3, MaxFileSize: 20000, Links: true})
			fsxMu.Unlock()
			for j := 0; j < 4; j++ { // make sure there are files to work with
				tree[fmt.Sprintf("base%d", j)] = &fsx.Node{Kind: fsx.KFile, Content: token(rng, 200+rng.Intn(3000)), Mode: 0o644}
			}
			if err := fsx.Materialize(root, tree); err != nil {
				r.Inconclusive("harness:materialize")
				return
			}
			cfg := &synchronization.Configuration{
				WatchMode:            synchronization.WatchMode_WatchModeForcePoll,
				WatchPollingInterval: 1,
				ScanMode:             synchronization.ScanMode_ScanModeAccelerated,
				ProbeMode:            behavior.ProbeMode_ProbeModeAssume,
			}
			le, err := newLocalEndpoint("C42", root, cfg)
			if err != nil {
				r.Inconclusive("harness:endpoint")
				fmt.Printf("C42 worker %d: endpoint: %v\n", w, err)
				return
			}
			defer le.shutdown()
			wk := &c42Worker{r: r, id: w, rng: rng, root: root, src: src, le: le, hb: hb}
			for round := 0; round < rounds; round++ {
				kind := []string{"scan-after-transition", "external-edit", "reversal", "partial-transition", "reversal-chain", "edit-after-failed-poll-scan"}[(round+w)%6]
				fmt.Printf("C42 worker %d round %d: %s\n", w, round, kind)
				if !drain(le.ep) {
					r.Inconclusive("never-quiet")
					continue
				}
				switch kind {
				case "scan-after-transition":
					offsets := []time.Duration{0, 0, 0, 30, 150, 400, 700, 950, 1050, 1300}
					wk.scanAfterTransition(offsets[(round/6+w)%len(offsets)] * time.Millisecond)
				case "external-edit":
					wk.externalEdit()
				case "reversal":
					wk.reversal()
				case "partial-transition":
					wk.partialTransition([]string{"unknown-child", "modified-child", "missing-staged"}[(round/6+w)%3])
				case "edit-after-failed-poll-scan":
					wk.editAfterFailedPollScan()
				case "reversal-chain":
					wk.reversalChain(2 + (round/6+w)%2)
				}
			}
		}(w)
	}
	// Slow transitions with the polling tick aimed inside them.
	slow := r.Pick(3, 12)
	for i := 0; i < slow; i++ {
		wg.Add(1)
		go func(i int) {
			defer wg.Done()
			c42SlowTransition(r, hb, i, filepath.Join(base, fmt.Sprintf("slow%d", i)), i%2 == 1)
		}(i)
	}
	wg.Wait()
	r.Note("max_heartbeat_gap_ms", hb.max().Milliseconds())
	r.Assume("bounded-progress restatement: a change is 'noticed' if Poll returns within 10 s (2 polling intervals of 1 s plus slack) while the heartbeat control (a goroutine that also creates and removes a file in the scratch filesystem every 50 ms) shows no gap >= 1 s; otherwise the case is inconclusive")
	r.Assume("before each round the harness waits until no poll signal arrived for 1.3 s, so that a returning Poll is attributable to the round's own change (a late stale signal can only mask a miss, never fake one)")
	r.Assume("external edits that do not change the independent walker's view (e.g. chmod that leaves some executable bit set) are skipped: no notification is owed for them")
	r.Finish("local endpoints with force-poll watching (1 s) and accelerated scans, rounds cycling through (a) transition then Scan at offsets 0..1.3 s compared with the independent walker, (b) external random edit at a random offset in the polling tick then Poll, (c) transition immediately reversed by the harness then Poll; distinct = (round kind, change kind, offset bucket, outcome)", 12)
}

// change kinds the worker can plan.
var c42Kinds = []string{"create", "swap", "delete", "mkdir", "xbit"}

type c42Applied struct {
	kind    string
	path    string
	oldData []byte
	oldMode os.FileMode
	before  *core.Snapshot
	results []*core.Entry
	changes []*core.Change
}

// transition plans one change from a fresh Scan, stages, supplies and transitions it.
func (w *c42Worker) transition(kind string) (*c42Applied, string) {
	ctx := context.Background()
	snap, err := scanEndpoint(w.le.ep, false)
	if err != nil {
		return nil, "scan: " + err.Error()
	}
	var files []string
	for name, e := range snap.Content.Contents {
		if e.Kind == core.EntryKind_File {
			files = append(files, name)
		}
	}
	sort.Strings(files)
	w.n++
	a := &c42Applied{kind: kind, before: snap}
	var ch *core.Change
	writeSrc := func(p string, data []byte) {
		full := filepath.Join(w.src, filepath.FromSlash(p))
		os.MkdirAll(filepath.Dir(full), 0o755)
		os.WriteFile(full, data, 0o644)
	}
	switch kind {
	case "create":
		a.path = fmt.Sprintf("made%d", w.n)
		data := token(w.rng, 10+w.rng.Intn(3000))
		writeSrc(a.path, data)
		ch = &core.Change{Path: a.path, New: &core.Entry{Kind: core.EntryKind_File, Digest: sha1Of(data)}}
	case "mkdir":
		a.path = fmt.Sprintf("madedir%d", w.n)
		data := token(w.rng, 10+w.rng.Intn(3000))
		writeSrc(a.path+"/inner", data)
		ch = &core.Change{Path: a.path, New: &core.Entry{Kind: core.EntryKind_Directory, Contents: map[string]*core.Entry{
			"inner": {Kind: core.EntryKind_File, Digest: sha1Of(data)}}}}
	case "swap", "delete", "xbit":
		if len(files) == 0 {
			return nil, "no file to work on"
		}
		a.path = files[w.rng.Intn(len(files))]
		full := filepath.Join(w.root, a.path)
		a.oldData, _ = os.ReadFile(full)
		if fi, err := os.Lstat(full); err == nil {
			a.oldMode = fi.Mode().Perm()
		}
		old := snap.Content.Contents[a.path]
		switch kind {
		case "swap":
			data := token(w.rng, 10+w.rng.Intn(3000))
			writeSrc(a.path, data)
			ch = &core.Change{Path: a.path, Old: old, New: &core.Entry{Kind: core.EntryKind_File, Digest: sha1Of(data), Executable: old.Executable}}
		case "delete":
			ch = &core.Change{Path: a.path, Old: old}
		case "xbit":
			ch = &core.Change{Path: a.path, Old: old, New: &core.Entry{Kind: core.EntryKind_File, Digest: old.Digest, Executable: !old.Executable}}
		}
	}
	a.changes = []*core.Change{ch}
	if paths, digests := core.TransitionDependencies(a.changes); len(paths) > 0 {
		filtered, sigs, receiver, err := w.le.ep.Stage(paths, digests)
		if err != nil {
			return nil, "stage: " + err.Error()
		}
		if receiver != nil {
			if err := rsync.Transmit(w.src, filtered, sigs, receiver); err != nil {
				return nil, "transmit: " + err.Error()
			}
		}
	}
	results, problems, _, err := w.le.ep.Transition(ctx, a.changes)
	if err != nil {
		return nil, "transition: " + err.Error()
	}
	a.results = results
	if ok, _ := strictDiff("", results[0], ch.New); !ok {
		msg := "transition did not apply"
		if len(problems) > 0 {
			msg += ": " + problems[0].Error
		}
		return nil, msg
	}
	return a, ""
}

func offsetBucket(d time.Duration) string {
	switch {
	case d == 0:
		return "0"
	case d < 500*time.Millisecond:
		return "<0.5s"
	case d < time.Second:
		return "<1s"
	}
	return ">=1s"
}

// (a) the Scan following a transition that changed the disk equals the walker's view.
func (w *c42Worker) scanAfterTransition(offset time.Duration) {
	r := w.r
	kind := c42Kinds[w.rng.Intn(len(c42Kinds))]
	a, why := w.transition(kind)
	if a == nil {
		r.Inconclusive("round-setup")
		fmt.Printf("C42 worker %d: setup failed: %s\n", w.id, why)
		return
	}
	if offset > 0 {
		time.Sleep(offset)
	}
	w.checkScan(a.before, a.kind, a.path, offset)
}

// checkScan issues a Scan and compares it with the independent walker's view of the (quiescent) disk.
func (w *c42Worker) checkScan(before *core.Snapshot, kind, path string, offset time.Duration) {
	r := w.r
	snap, err := scanEndpoint(w.le.ep, false)
	if err != nil {
		r.Inconclusive("scan-error")
		return
	}
	view, stats, err := fsx.Walk(w.root, c42WalkOptions)
	if err != nil {
		r.Inconclusive("walk-error")
		return
	}
	r.Eval(1)
	ok, where := fsx.EqualLoose(view, snap.Content)
	countsOK := snap.Directories == stats.Directories && snap.Files == stats.Files && snap.SymbolicLinks == stats.SymbolicLinks && snap.TotalFileSize == stats.TotalFileSize
	stale, _ := strictDiff("", before.Content, snap.Content)
	outcome := "fresh"
	if !ok || !countsOK {
		outcome = "differs"
		r.Violation(map[string]string{"rule": "scan-after-transition-differs-from-disk", "stale": fmt.Sprint(stale), "transition": kindClass(kind)},
			fmt.Sprintf("the Scan issued %v after a transition (%s %q) differs from the walker's view at %q (equal to the pre-transition snapshot: %v; counters match: %v)",
				offset, kind, path, where, stale, countsOK),
			map[string]any{"worker": w.id, "kind": kind, "path": path, "offset_ms": offset.Milliseconds(), "first_difference": where,
				"snapshot_at_path": describe(entryAt(snap.Content, where)), "disk_at_path": describe(entryAt(view, where)), "stale": stale})
	}
	r.Distinct(fmt.Sprintf("a|%s|%s|%s", kind, offsetBucket(offset), outcome))
	r.Count("scans_after_transition_checked", 1)
	r.Sample(map[string]any{"round": "scan-after-transition", "kind": kind, "path": path, "offset_ms": offset.Milliseconds(), "outcome": outcome})
}

func kindClass(kind string) string {
	switch kind {
	case "unknown-child", "modified-child", "missing-staged":
		return "partial"
	case "slow-bulk-removal", "slow-cross-device-copy":
		return kind
	}
	return "complete"
}

// (b) an external edit is noticed.
func (w *c42Worker) externalEdit() {
	r := w.r
	before, _, err := fsx.Walk(w.root, c42WalkOptions)
	if err != nil {
		r.Inconclusive("walk-error")
		return
	}
	offset := time.Duration(w.rng.Intn(1000)) * time.Millisecond
	time.Sleep(offset)
	fsxMu.Lock()
	edit, _, err := fsx.RandomEdit(w.rng, w.root)
	fsxMu.Unlock()
	if err != nil || edit.Op == "none" {
		r.Inconclusive("edit-failed")
		return
	}
	after, _, err := fsx.Walk(w.root, c42WalkOptions)
	if err != nil {
		r.Inconclusive("walk-error")
		return
	}
	if same, _ := strictDiff("", before, after); same {
		r.Count("edits_invisible_to_a_snapshot_skipped", 1)
		return
	}
	w.awaitPoll("external-edit", edit.Op, offset, map[string]any{"edit": edit})
}

// awaitPoll waits for the notification owed for a change just made.
func (w *c42Worker) awaitPoll(round, kind string, offset time.Duration, detail map[string]any) bool {
	r := w.r
	t0 := time.Now()
	signalled, latency := pollOnce(w.le.ep, c42PollBound)
	gap := w.hb.maxSince(t0)
	r.Eval(1)
	detail["worker"], detail["offset_ms"], detail["waited_ms"], detail["max_heartbeat_gap_ms"] = w.id, offset.Milliseconds(), latency.Milliseconds(), gap.Milliseconds()
	if !signalled {
		if gap >= time.Second {
			r.Inconclusive("scheduler-unhealthy-during-poll-wait")
			return false
		}
		r.Violation(map[string]string{"rule": "change-not-noticed", "round": round},
			fmt.Sprintf("%s (%s): Poll did not return within %v although the heartbeat never paused for more than %v", round, kind, c42PollBound, gap), detail)
		r.Distinct(fmt.Sprintf("%s|%s|missed", round, kind))
		return false
	}
	r.Count("notifications_observed", 1)
	r.Count("notification_latency_ms_total", latency.Milliseconds())
	r.Distinct(fmt.Sprintf("%s|%s|%s|noticed", round, kind, offsetBucket(offset)))
	r.Sample(map[string]any{"round": round, "kind": kind, "offset_ms": offset.Milliseconds(), "poll_returned_after_ms": latency.Milliseconds()})
	return true
}

// (c) a transition whose effect is undone immediately is still reported.
func (w *c42Worker) reversal() {
	r := w.r
	kind := []string{"create", "delete", "swap", "mkdir"}[w.rng.Intn(4)]
	a, why := w.transition(kind)
	if a == nil {
		r.Inconclusive("round-setup")
		fmt.Printf("C42 worker %d: setup failed: %s\n", w.id, why)
		return
	}
	if !w.undo(a) {
		r.Inconclusive("reversal-failed")
		return
	}
	// The reversal must really restore the pre-transition view, otherwise this is just an edit.
	view, _, werr := fsx.Walk(w.root, c42WalkOptions)
	if werr != nil {
		r.Inconclusive("walk-error")
		return
	}
	if same, _ := fsx.EqualLoose(view, a.before.Content); !same {
		r.Count("reversals_not_exact", 1)
	} else {
		r.Count("reversals_exact", 1)
	}
	w.awaitPoll("reversal", kind, 0, map[string]any{"path": a.path})
}

// (a') a PARTIALLY applied transition changed the disk as well: the next Scan must show it.
func (w *c42Worker) partialTransition(variant string) {
	r := w.r
	ctx := context.Background()
	w.n++
	name := fmt.Sprintf("part%d", w.n)
	full := filepath.Join(w.root, name)
	var changes []*core.Change
	var before *core.Snapshot
	setupFail := func(why string) {
		r.Inconclusive("round-setup")
		fmt.Printf("C42 worker %d: partial-transition setup failed: %s\n", w.id, why)
	}
	switch variant {
	case "unknown-child", "modified-child":
		// A directory with two files, known to the plan through a full scan.
		os.Mkdir(full, 0o755)
		os.WriteFile(filepath.Join(full, "a"), token(w.rng, 100+w.rng.Intn(2000)), 0o644)
		os.WriteFile(filepath.Join(full, "b"), token(w.rng, 100+w.rng.Intn(2000)), 0o644)
		snap, err := scanEndpoint(w.le.ep, true)
		if err != nil || entryAt(snap.Content, name) == nil {
			setupFail("scan")
			return
		}
		before = snap
		// Something the plan does not know about happens inside the directory.
		if variant == "unknown-child" {
			os.WriteFile(filepath.Join(full, "c"), token(w.rng, 50), 0o644)
		} else {
			os.WriteFile(filepath.Join(full, "b"), token(w.rng, 100+w.rng.Intn(2000)), 0o644)
			fsx.BumpMtime(filepath.Join(full, "b"))
		}
		changes = []*core.Change{{Path: name, Old: entryAt(snap.Content, name)}}
	case "missing-staged":
		snap, err := scanEndpoint(w.le.ep, false)
		if err != nil {
			setupFail("scan")
			return
		}
		before = snap
		x, y := token(w.rng, 100+w.rng.Intn(2000)), token(w.rng, 100+w.rng.Intn(2000))
		os.MkdirAll(filepath.Join(w.src, name), 0o755)
		os.WriteFile(filepath.Join(w.src, name, "x"), x, 0o644) // the source of y is missing
		changes = []*core.Change{{Path: name, New: &core.Entry{Kind: core.EntryKind_Directory, Contents: map[string]*core.Entry{
			"x": {Kind: core.EntryKind_File, Digest: sha1Of(x)}, "y": {Kind: core.EntryKind_File, Digest: sha1Of(y)}}}}}
		paths, digests := core.TransitionDependencies(changes)
		filtered, sigs, receiver, err := w.le.ep.Stage(paths, digests)
		if err != nil {
			setupFail("stage")
			return
		}
		if receiver != nil {
			rsync.Transmit(w.src, filtered, sigs, receiver)
		}
	}
	viewBefore, _, _ := fsx.Walk(w.root, c42WalkOptions)
	results, problems, _, err := w.le.ep.Transition(ctx, changes)
	if err != nil {
		setupFail("transition: " + err.Error())
		return
	}
	viewAfter, _, _ := fsx.Walk(w.root, c42WalkOptions)
	sameDisk, _ := strictDiff("", viewBefore, viewAfter)
	complete, _ := strictDiff("", results[0], changes[0].New)
	if sameDisk || complete || len(problems) == 0 {
		// Not the situation this round is about (nothing changed, or everything was applied).
		r.Count("partial_transitions_not_partial", 1)
		return
	}
	r.Count("partial_transitions_changing_the_disk", 1)
	offset := []time.Duration{0, 0, 20 * time.Millisecond}[w.rng.Intn(3)]
	if offset > 0 {
		time.Sleep(offset)
	}
	w.checkScan(before, variant, name, offset)
}

// (c') several transitions, each undone immediately, back to back (a Scan precedes each, as the
// endpoint requires): every reversal is owed its own notification.
func (w *c42Worker) reversalChain(steps int) {
	r := w.r
	for step := 1; step <= steps; step++ {
		kind := []string{"create", "mkdir", "delete", "swap"}[w.rng.Intn(4)]
		a, why := w.transition(kind)
		if a == nil {
			r.Inconclusive("round-setup")
			fmt.Printf("C42 worker %d: chain step %d setup failed: %s\n", w.id, step, why)
			return
		}
		if !w.undo(a) {
			r.Inconclusive("reversal-failed")
			return
		}
		r.Count(fmt.Sprintf("chain_reversals_step_%d", step), 1)
		if !w.awaitPoll(fmt.Sprintf("reversal-chain-step-%d", step), kind, 0, map[string]any{"path": a.path, "step": step, "steps": steps}) {
			return
		}
	}
}

// undo reverses the effect of an applied change on disk.
func (w *c42Worker) undo(a *c42Applied) bool {
	full := filepath.Join(w.root, filepath.FromSlash(a.path))
	var err error
	switch a.kind {
	case "create":
		err = os.Remove(full)
	case "mkdir":
		err = os.RemoveAll(full)
	case "delete", "swap":
		if a.kind == "swap" {
			os.Remove(full)
		}
		err = os.WriteFile(full, a.oldData, 0o600)
		if err == nil {
			err = os.Chmod(full, a.oldMode)
		}
	}
	return err == nil
}

// c42SlowTransition makes one transition slow (removal of a directory with tens of thousands
// of files) and starts it so that the poller's tick falls inside it; the Scan issued right
// after the transition must equal the walker's view.
//
// Two ways of being slow: "bulk" removes a directory of 4000 files (the poller's scans during
// it see a changing tree and may fail); "copy" creates one 64 MiB file in a root on tmpfs from
// a staging root on ext4, i.e. through the cross-device copy into a temporary that scans
// ignore, so the poller sees the unchanged pre-transition root until the final rename.
func c42SlowTransition(r *vk.Run, hb *heartbeat, index int, dir string, bigCopy bool) {
	const files = 4000
	const copySize = 64 << 20
	root := filepath.Join(dir, "beta")
	src := filepath.Join(dir, "alpha")
	defer os.RemoveAll(dir)
	if bigCopy {
		shm, err := shmDir(fmt.Sprintf("C42-slow-%d", index))
		if err != nil {
			r.Inconclusive("harness:shm")
			return
		}
		defer os.RemoveAll(shm)
		root = filepath.Join(shm, "beta")
	}
	bulk := filepath.Join(root, "bulk")
	if err := os.MkdirAll(bulk, 0o755); err != nil {
		r.Inconclusive("harness:materialize")
		return
	}
	var bigDigest []byte
	if bigCopy {
		os.MkdirAll(src, 0o755)
		data := make([]byte, copySize)
		copy(data, fmt.Sprintf("big-%d-%d", index, time.Now().UnixNano()))
		bigDigest = sha1Of(data)
		if err := os.WriteFile(filepath.Join(src, "big"), data, 0o644); err != nil {
			r.Inconclusive("harness:materialize")
			return
		}
		data = nil
	} else {
		for j := 0; j < files; j++ {
			if err := os.WriteFile(filepath.Join(bulk, fmt.Sprintf("n%05d", j)), nil, 0o644); err != nil {
				r.Inconclusive("harness:materialize")
				return
			}
		}
	}
	os.WriteFile(filepath.Join(root, "keep"), []byte("keep"), 0o644)
	cfg := &synchronization.Configuration{
		WatchMode:            synchronization.WatchMode_WatchModeForcePoll,
		WatchPollingInterval: 1,
		ScanMode:             synchronization.ScanMode_ScanModeAccelerated,
		ProbeMode:            behavior.ProbeMode_ProbeModeAssume,
	}
	created := time.Now() // the poller's ticker starts (about) now: ticks at created + k seconds
	le, err := newLocalEndpoint("C42", root, cfg)
	if err != nil {
		r.Inconclusive("harness:endpoint")
		return
	}
	defer le.shutdown()
	fmt.Printf("C42 slow transition %d: big copy %v\n", index, bigCopy)
	if !drain(le.ep) {
		r.Inconclusive("never-quiet")
		return
	}
	snap, err := scanEndpoint(le.ep, false)
	if err != nil || entryAt(snap.Content, "bulk") == nil {
		r.Inconclusive("round-setup")
		return
	}
	change := &core.Change{Path: "bulk", Old: entryAt(snap.Content, "bulk")}
	kind := "slow-bulk-removal"
	if bigCopy {
		kind = "slow-cross-device-copy"
		change = &core.Change{Path: "big", New: &core.Entry{Kind: core.EntryKind_File, Digest: bigDigest}}
		filtered, sigs, receiver, err := le.ep.Stage([]string{"big"}, [][]byte{bigDigest})
		if err != nil || receiver == nil {
			r.Inconclusive("round-setup")
			return
		}
		if err := rsync.Transmit(src, filtered, sigs, receiver); err != nil {
			r.Inconclusive("round-setup")
			return
		}
	}
	// Aim: start the transition a fraction of its expected duration before the next tick.
	lead := []time.Duration{40, 60, 180, 120, 100, 30, 140, 90}[index%8] * time.Millisecond
	now := time.Now()
	k := now.Sub(created)/time.Second + 1
	nextTick := created.Add(k * time.Second)
	if nextTick.Sub(now) < lead+50*time.Millisecond {
		nextTick = nextTick.Add(time.Second)
	}
	time.Sleep(time.Until(nextTick.Add(-lead)))
	start := time.Now()
	results, problems, _, err := le.ep.Transition(context.Background(), []*core.Change{change})
	end := time.Now()
	if applied, _ := strictDiff("", results[0], change.New); err != nil || len(problems) > 0 || !applied {
		r.Inconclusive("round-setup")
		fmt.Printf("C42 slow transition %d: not applied: %v %d problems\n", index, err, len(problems))
		return
	}
	inside := !nextTick.Before(start) && !nextTick.After(end)
	fmt.Printf("C42 slow transition %d: took %v, tick estimated %v after start (inside: %v)\n", index, end.Sub(start), nextTick.Sub(start), inside)
	if inside {
		r.Count("slow_transitions_with_tick_inside_estimated", 1)
	}
	r.Count("slow_transition_ms_total", end.Sub(start).Milliseconds())
	w := &c42Worker{r: r, id: 100 + index, root: root, le: le, hb: hb}
	w.checkScan(snap, kind, change.Path, 0)
	r.Distinct(fmt.Sprintf("%s|tick-inside=%v", kind, inside))
}

// (b') polling must go on after one of the poller's periodic scans failed: the root is
// replaced by a symbolic link for about 1.5 polling intervals (core.Scan refuses a symbolic
// link at the root, so the poller's scan fails without ending the endpoint), restored, and
// after things are quiet again an external edit must still be noticed.
func (w *c42Worker) editAfterFailedPollScan() {
	r := w.r
	away := w.root + ".away"
	if err := os.Rename(w.root, away); err != nil {
		r.Inconclusive("round-setup")
		return
	}
	if err := os.Symlink(away, w.root); err != nil {
		os.Rename(away, w.root)
		r.Inconclusive("round-setup")
		return
	}
	// The real poller strobes the poll signal when its scan fails; seeing that is the liveness
	// control for "a poll scan really failed" (not asserted).
	failedScanSeen, _ := pollOnce(w.le.ep, c42Interval*3/2)
	if failedScanSeen {
		time.Sleep(c42Interval / 2)
	}
	os.Remove(w.root)
	if err := os.Rename(away, w.root); err != nil {
		r.Inconclusive("round-setup")
		return
	}
	if failedScanSeen {
		r.Count("failed_poll_scans_signalled", 1)
	} else {
		r.Count("failed_poll_scans_not_signalled", 1)
	}
	if !drain(w.le.ep) {
		r.Inconclusive("never-quiet")
		return
	}
	before, _, err := fsx.Walk(w.root, c42WalkOptions)
	if err != nil {
		r.Inconclusive("walk-error")
		return
	}
	offset := time.Duration(w.rng.Intn(1000)) * time.Millisecond
	time.Sleep(offset)
	w.n++
	name := fmt.Sprintf("afterfail%d", w.n)
	if err := os.WriteFile(filepath.Join(w.root, name), token(w.rng, 100+w.rng.Intn(1000)), 0o644); err != nil {
		r.Inconclusive("edit-failed")
		return
	}
	after, _, _ := fsx.Walk(w.root, c42WalkOptions)
	if same, _ := strictDiff("", before, after); same {
		r.Inconclusive("edit-failed")
		return
	}
	w.awaitPoll("edit-after-failed-poll-scan", "create-file", offset, map[string]any{"path": name, "failed_scan_signalled": failedScanSeen})
}
