package main

import (
	"context"
	"fmt"
	"math/rand"
	"os"
	"path/filepath"
	"sort"
	"sync"
	"time"

	"github.com/mutagen-io/mutagen/pkg/filesystem/behavior"
	"github.com/mutagen-io/mutagen/pkg/synchronization"
	"github.com/mutagen-io/mutagen/pkg/synchronization/core"
	"github.com/mutagen-io/mutagen/pkg/synchronization/rsync"

	"verif/internal/fsx"
	"verif/internal/vk"
)

const (
	c42Interval  = 1 * time.Second
	c42PollBound = 10 * time.Second // 2 polling intervals + generous slack; judged only if the heartbeat stayed healthy
	c42QuietTime = 1300 * time.Millisecond
)

var c42WalkOptions = fsx.WalkOptions{
	SymbolicLinkMode: core.SymbolicLinkMode_SymbolicLinkModePortable,
	PermissionsMode:  core.PermissionsMode_PermissionsModePortable,
}

// pollOnce waits for one Poll return or the timeout; it reports whether Poll returned because of a signal.
func pollOnce(ep synchronization.Endpoint, timeout time.Duration) (bool, time.Duration) {
	ctx, cancel := context.WithTimeout(context.Background(), timeout)
	defer cancel()
	start := time.Now()
	ep.Poll(ctx)
	el := time.Since(start)
	return ctx.Err() == nil, el
}

// drain waits until no poll signal arrived for a whole quiet window (bounded).
func drain(ep synchronization.Endpoint) bool {
	for i := 0; i < 20; i++ {
		if signalled, _ := pollOnce(ep, c42QuietTime); !signalled {
			return true
		}
	}
	return false
}

type c42Worker struct {
	r    *vk.Run
	id   int
	rng  *rand.Rand
	root string
	src  string
	le   *localEndpoint
	hb   *heartbeat
	n    int
}

func c42() {
	r := vk.Start("C42", "exploration")
	workers := r.Pick(8, 12)
	rounds := r.Pick(15, 50) // per worker
	base := r.Scratch()
	hb := startHeartbeat()
	defer hb.close()
	var wg sync.WaitGroup
	for w := 0; w < workers; w++ {
		wg.Add(1)
		go func(w int) {
			defer wg.Done()
			rng := r.Rand(fmt.Sprintf("worker-%d", w))
			root := filepath.Join(base, fmt.Sprintf("w%d", w), "beta")
			src := filepath.Join(base, fmt.Sprintf("w%d", w), "alpha")
			os.MkdirAll(src, 0o755)
			fsxMu.Lock()
			tree := fsx.RandomTree(rng, fsx.TreeConfig{MaxEntries: 25, MaxDepth: 3, MaxFileSize: 20000, Links: true})
			fsxMu.Unlock()
			for j := 0; j < 4; j++ { // make sure there are files to work with
				tree[fmt.Sprintf("base%d", j)] = &fsx.Node{Kind: fsx.KFile, Content: token(rng, 200+rng.Intn(3000)), Mode: 0o644}
			}
			if err := fsx.Materialize(root, tree); err != nil {
				r.Inconclusive("harness:materialize")
				return
			}
			cfg := &synchronization.Configuration{
				WatchMode:            synchronization.WatchMode_WatchModeForcePoll,
				WatchPollingInterval: 1,
				ScanMode:             synchronization.ScanMode_ScanModeAccelerated,
				ProbeMode:            behavior.ProbeMode_ProbeModeAssume,
			}
			le, err := newLocalEndpoint("C42", root, cfg)
			if err != nil {
				r.Inconclusive("harness:endpoint")
				fmt.Printf("C42 worker %d: endpoint: %v\n", w, err)
				return
			}
			defer le.shutdown()
			wk := &c42Worker{r: r, id: w, rng: rng, root: root, src: src, le: le, hb: hb}
			for round := 0; round < rounds; round++ {
				kind := []string{"scan-after-transition", "external-edit", "reversal"}[(round+w)%3]
				fmt.Printf("C42 worker %d round %d: %s\n", w, round, kind)
				if !drain(le.ep) {
					r.Inconclusive("never-quiet")
					continue
				}
				switch kind {
				case "scan-after-transition":
					offsets := []time.Duration{0, 0, 0, 30, 150, 400, 700, 950, 1050, 1300}
					wk.scanAfterTransition(offsets[(round/3+w)%len(offsets)] * time.Millisecond)
				case "external-edit":
					wk.externalEdit()
				case "reversal":
					wk.reversal()
				}
			}
		}(w)
	}
	wg.Wait()
	r.Note("max_heartbeat_gap_ms", hb.max().Milliseconds())
	r.Assume("bounded-progress restatement: a change is 'noticed' if Poll returns within 10 s (2 polling intervals of 1 s plus slack) while the heartbeat control shows no scheduler gap >= 1 s; otherwise the case is inconclusive")
	r.Assume("before each round the harness waits until no poll signal arrived for 1.3 s, so that a returning Poll is attributable to the round's own change (a late stale signal can only mask a miss, never fake one)")
	r.Assume("external edits that do not change the independent walker's view (e.g. chmod that leaves some executable bit set) are skipped: no notification is owed for them")
	r.Finish("local endpoints with force-poll watching (1 s) and accelerated scans, rounds cycling through (a) transition then Scan at offsets 0..1.3 s compared with the independent walker, (b) external random edit at a random offset in the polling tick then Poll, (c) transition immediately reversed by the harness then Poll; distinct = (round kind, change kind, offset bucket, outcome)", 12)
}

// change kinds the worker can plan.
var c42Kinds = []string{"create", "swap", "delete", "mkdir", "xbit"}

type c42Applied struct {
	kind    string
	path    string
	oldData []byte
	oldMode os.FileMode
	before  *core.Snapshot
	results []*core.Entry
	changes []*core.Change
}

// transition plans one change from a fresh Scan, stages, supplies and transitions it.
func (w *c42Worker) transition(kind string) (*c42Applied, string) {
	ctx := context.Background()
	snap, err := scanEndpoint(w.le.ep, false)
	if err != nil {
		return nil, "scan: " + err.Error()
	}
	var files []string
	for name, e := range snap.Content.Contents {
		if e.Kind == core.EntryKind_File {
			files = append(files, name)
		}
	}
	sort.Strings(files)
	w.n++
	a := &c42Applied{kind: kind, before: snap}
	var ch *core.Change
	writeSrc := func(p string, data []byte) {
		full := filepath.Join(w.src, filepath.FromSlash(p))
		os.MkdirAll(filepath.Dir(full), 0o755)
		os.WriteFile(full, data, 0o644)
	}
	switch kind {
	case "create":
		a.path = fmt.Sprintf("made%d", w.n)
		data := token(w.rng, 10+w.rng.Intn(3000))
		writeSrc(a.path, data)
		ch = &core.Change{Path: a.path, New: &core.Entry{Kind: core.EntryKind_File, Digest: sha1Of(data)}}
	case "mkdir":
		a.path = fmt.Sprintf("madedir%d", w.n)
		data := token(w.rng, 10+w.rng.Intn(3000))
		writeSrc(a.path+"/inner", data)
		ch = &core.Change{Path: a.path, New: &core.Entry{Kind: core.EntryKind_Directory, Contents: map[string]*core.Entry{
			"inner": {Kind: core.EntryKind_File, Digest: sha1Of(data)}}}}
	case "swap", "delete", "xbit":
		if len(files) == 0 {
			return nil, "no file to work on"
		}
		a.path = files[w.rng.Intn(len(files))]
		full := filepath.Join(w.root, a.path)
		a.oldData, _ = os.ReadFile(full)
		if fi, err := os.Lstat(full); err == nil {
			a.oldMode = fi.Mode().Perm()
		}
		old := snap.Content.Contents[a.path]
		switch kind {
		case "swap":
			data := token(w.rng, 10+w.rng.Intn(3000))
			writeSrc(a.path, data)
			ch = &core.Change{Path: a.path, Old: old, New: &core.Entry{Kind: core.EntryKind_File, Digest: sha1Of(data), Executable: old.Executable}}
		case "delete":
			ch = &core.Change{Path: a.path, Old: old}
		case "xbit":
			ch = &core.Change{Path: a.path, Old: old, New: &core.Entry{Kind: core.EntryKind_File, Digest: old.Digest, Executable: !old.Executable}}
		}
	}
	a.changes = []*core.Change{ch}
	if paths, digests := core.TransitionDependencies(a.changes); len(paths) > 0 {
		filtered, sigs, receiver, err := w.le.ep.Stage(paths, digests)
		if err != nil {
			return nil, "stage: " + err.Error()
		}
		if receiver != nil {
			if err := rsync.Transmit(w.src, filtered, sigs, receiver); err != nil {
				return nil, "transmit: " + err.Error()
			}
		}
	}
	results, problems, _, err := w.le.ep.Transition(ctx, a.changes)
	if err != nil {
		return nil, "transition: " + err.Error()
	}
	a.results = results
	if ok, _ := strictDiff("", results[0], ch.New); !ok {
		msg := "transition did not apply"
		if len(problems) > 0 {
			msg += ": " + problems[0].Error
		}
		return nil, msg
	}
	return a, ""
}

func offsetBucket(d time.Duration) string {
	switch {
	case d == 0:
		return "0"
	case d < 500*time.Millisecond:
		return "<0.5s"
	case d < time.Second:
		return "<1s"
	}
	return ">=1s"
}

// (a) the Scan following a transition that changed the disk equals the walker's view.
func (w *c42Worker) scanAfterTransition(offset time.Duration) {
	r := w.r
	kind := c42Kinds[w.rng.Intn(len(c42Kinds))]
	a, why := w.transition(kind)
	if a == nil {
		r.Inconclusive("round-setup")
		fmt.Printf("C42 worker %d: setup failed: %s\n", w.id, why)
		return
	}
	if offset > 0 {
		time.Sleep(offset)
	}
	snap, err := scanEndpoint(w.le.ep, false)
	if err != nil {
		r.Inconclusive("scan-error")
		return
	}
	view, stats, err := fsx.Walk(w.root, c42WalkOptions)
	if err != nil {
		r.Inconclusive("walk-error")
		return
	}
	r.Eval(1)
	ok, where := fsx.EqualLoose(view, snap.Content)
	countsOK := snap.Directories == stats.Directories && snap.Files == stats.Files && snap.SymbolicLinks == stats.SymbolicLinks && snap.TotalFileSize == stats.TotalFileSize
	stale, _ := strictDiff("", a.before.Content, snap.Content)
	outcome := "fresh"
	if !ok || !countsOK {
		outcome = "differs"
		r.Violation(map[string]string{"rule": "scan-after-transition-differs-from-disk", "stale": fmt.Sprint(stale)},
			fmt.Sprintf("the Scan issued %v after a transition (%s %q) differs from the walker's view at %q (equal to the pre-transition snapshot: %v; counters match: %v)",
				offset, a.kind, a.path, where, stale, countsOK),
			map[string]any{"worker": w.id, "kind": a.kind, "path": a.path, "offset_ms": offset.Milliseconds(), "first_difference": where,
				"snapshot_at_path": describe(entryAt(snap.Content, where)), "disk_at_path": describe(entryAt(view, where)), "stale": stale})
	}
	r.Distinct(fmt.Sprintf("a|%s|%s|%s", a.kind, offsetBucket(offset), outcome))
	r.Count("scans_after_transition_checked", 1)
	r.Sample(map[string]any{"round": "scan-after-transition", "kind": a.kind, "path": a.path, "offset_ms": offset.Milliseconds(), "outcome": outcome})
}

// (b) an external edit is noticed.
func (w *c42Worker) externalEdit() {
	r := w.r
	before, _, err := fsx.Walk(w.root, c42WalkOptions)
	if err != nil {
		r.Inconclusive("walk-error")
		return
	}
	offset := time.Duration(w.rng.Intn(1000)) * time.Millisecond
	time.Sleep(offset)
	fsxMu.Lock()
	edit, _, err := fsx.RandomEdit(w.rng, w.root)
	fsxMu.Unlock()
	if err != nil || edit.Op == "none" {
		r.Inconclusive("edit-failed")
		return
	}
	after, _, err := fsx.Walk(w.root, c42WalkOptions)
	if err != nil {
		r.Inconclusive("walk-error")
		return
	}
	if same, _ := strictDiff("", before, after); same {
		r.Count("edits_invisible_to_a_snapshot_skipped", 1)
		return
	}
	w.awaitPoll("external-edit", edit.Op, offset, map[string]any{"edit": edit})
}

// awaitPoll waits for the notification owed for a change just made.
func (w *c42Worker) awaitPoll(round, kind string, offset time.Duration, detail map[string]any) {
	r := w.r
	t0 := time.Now()
	signalled, latency := pollOnce(w.le.ep, c42PollBound)
	gap := w.hb.maxSince(t0)
	r.Eval(1)
	detail["worker"], detail["offset_ms"], detail["waited_ms"], detail["max_heartbeat_gap_ms"] = w.id, offset.Milliseconds(), latency.Milliseconds(), gap.Milliseconds()
	if !signalled {
		if gap >= time.Second {
			r.Inconclusive("scheduler-unhealthy-during-poll-wait")
			return
		}
		r.Violation(map[string]string{"rule": "change-not-noticed", "round": round},
			fmt.Sprintf("%s (%s): Poll did not return within %v although the heartbeat never paused for more than %v", round, kind, c42PollBound, gap), detail)
		r.Distinct(fmt.Sprintf("%s|%s|missed", round, kind))
		return
	}
	r.Count("notifications_observed", 1)
	r.Count("notification_latency_ms_total", latency.Milliseconds())
	r.Distinct(fmt.Sprintf("%s|%s|%s|noticed", round, kind, offsetBucket(offset)))
	r.Sample(map[string]any{"round": round, "kind": kind, "offset_ms": offset.Milliseconds(), "poll_returned_after_ms": latency.Milliseconds()})
}

// (c) a transition whose effect is undone immediately is still reported.
func (w *c42Worker) reversal() {
	r := w.r
	kind := []string{"create", "delete", "swap", "mkdir"}[w.rng.Intn(4)]
	a, why := w.transition(kind)
	if a == nil {
		r.Inconclusive("round-setup")
		fmt.Printf("C42 worker %d: setup failed: %s\n", w.id, why)
		return
	}
	full := filepath.Join(w.root, filepath.FromSlash(a.path))
	var err error
	switch kind {
	case "create":
		err = os.Remove(full)
	case "mkdir":
		err = os.RemoveAll(full)
	case "delete", "swap":
		if kind == "swap" {
			os.Remove(full)
		}
		err = os.WriteFile(full, a.oldData, 0o600)
		if err == nil {
			err = os.Chmod(full, a.oldMode)
		}
	}
	if err != nil {
		r.Inconclusive("reversal-failed")
		return
	}
	// The reversal must really restore the pre-transition view, otherwise this is just an edit.
	view, _, werr := fsx.Walk(w.root, c42WalkOptions)
	if werr != nil {
		r.Inconclusive("walk-error")
		return
	}
	if same, _ := fsx.EqualLoose(view, a.before.Content); !same {
		r.Count("reversals_not_exact", 1)
	} else {
		r.Count("reversals_exact", 1)
	}
	w.awaitPoll("reversal", kind, 0, map[string]any{"path": a.path})
}
