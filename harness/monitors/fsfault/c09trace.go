package main

import (
	"bufio"
	"os"
	"path/filepath"
	"regexp"
	"strconv"
	"strings"
)

// traceEvent is one syscall of the child's main thread.
type traceEvent struct {
	Name      string
	Args      string
	Ret       string
	Injected  bool
	Ordinal   int  // per-thread ordinal of this syscall name, counted from process start
	InBracket bool // strictly between the two marker syscalls
	After     bool // after the second marker
}

var (
	reTraceFull       = regexp.MustCompile(`^(\d+)\s+(\w+)\((.*)\)\s+= (.*)$`)
	reTraceUnfinished = regexp.MustCompile(`^(\d+)\s+(\w+)\((.*) <unfinished \.\.\.>$`)
	reTraceResumed    = regexp.MustCompile(`^(\d+)\s+<\.\.\. (\w+) resumed>(.*)\)\s+= (.*)$`)
	reQuoted          = regexp.MustCompile(`"((?:[^"\\]|\\.)*)"`)
)

const c09Marker = "getppid"

// parseTrace reads an `strace -f -o` log and returns the events of the thread
// that issued the marker syscalls, with per-name ordinals and bracket flags.
func parseTrace(path string) (events []traceEvent, markers int, err error) {
	f, err := os.Open(path)
	if err != nil {
		return nil, 0, err
	}
	defer f.Close()
	type raw struct {
		pid, name, args, ret string
	}
	var raws []raw
	pending := map[string]int{} // pid -> index into raws of the unfinished call
	sc := bufio.NewScanner(f)
	sc.Buffer(make([]byte, 1<<20), 1<<24)
	for sc.Scan() {
		line := sc.Text()
		if m := reTraceResumed.FindStringSubmatch(line); m != nil {
			if i, ok := pending[m[1]]; ok && raws[i].name == m[2] {
				raws[i].args += m[3]
				raws[i].ret = m[4]
				delete(pending, m[1])
			}
			continue
		}
		if m := reTraceUnfinished.FindStringSubmatch(line); m != nil {
			raws = append(raws, raw{pid: m[1], name: m[2], args: m[3], ret: "?"})
			pending[m[1]] = len(raws) - 1
			continue
		}
		if m := reTraceFull.FindStringSubmatch(line); m != nil {
			raws = append(raws, raw{pid: m[1], name: m[2], args: m[3], ret: m[4]})
		}
	}
	mainPid := ""
	for _, r := range raws {
		if r.name == c09Marker {
			mainPid = r.pid
			break
		}
	}
	if mainPid == "" {
		return nil, 0, nil
	}
	ord := map[string]int{}
	for _, r := range raws {
		if r.pid != mainPid {
			continue
		}
		if r.name == c09Marker {
			markers++
			continue
		}
		ord[r.name]++
		events = append(events, traceEvent{
			Name: r.name, Args: r.args, Ret: r.ret,
			Injected:  strings.Contains(r.ret, "(INJECTED)"),
			Ordinal:   ord[r.name],
			InBracket: markers == 1,
			After:     markers >= 2,
		})
	}
	return events, markers, nil
}

// objectClassifier maps the object named by a syscall to its role in the plan.
type objectClassifier struct {
	roles   map[string]string
	root    string
	staging string
	fds     map[int]string
}

func (c *objectClassifier) roleOfString(s string) string {
	base := filepath.Base(s)
	switch {
	case strings.HasPrefix(base, ".mutagen-temporary-"):
		return "temporary"
	case s == c.root:
		return "root"
	case c.staging != "" && strings.HasPrefix(s, c.staging+"/"):
		return "staged-file"
	}
	if r, ok := c.roles[base]; ok {
		return r
	}
	return "other"
}

// observe updates the descriptor table and returns the role of the object the
// event names ("role" and, for two-path calls, "role<-source").
func (c *objectClassifier) observe(e traceEvent) string {
	var strs []string
	for _, m := range reQuoted.FindAllStringSubmatch(e.Args, -1) {
		strs = append(strs, m[1])
	}
	role := "other"
	switch e.Name {
	case "fchmod", "fchown", "write", "read", "getdents64", "fstat", "pwrite64", "pread64", "copy_file_range", "sendfile", "splice":
		fd, err := strconv.Atoi(strings.TrimSpace(strings.SplitN(e.Args, ",", 2)[0]))
		if err == nil {
			if name, ok := c.fds[fd]; ok {
				role = c.roleOfString(name)
			}
		}
	case "symlinkat":
		if len(strs) >= 2 {
			role = c.roleOfString(strs[len(strs)-1])
		}
	default:
		if len(strs) > 0 {
			role = c.roleOfString(strs[len(strs)-1])
			if len(strs) > 1 && (e.Name == "renameat" || e.Name == "renameat2" || e.Name == "linkat") {
				src := c.roleOfString(strs[0])
				if src == "temporary" || src == "staged-file" {
					role += "<-" + src
				}
			}
		}
	}
	if e.Name == "openat" && len(strs) > 0 {
		if fd, err := strconv.Atoi(strings.Fields(e.Ret + " x")[0]); err == nil && fd >= 0 {
			c.fds[fd] = strs[len(strs)-1]
		}
	}
	return role
}
