package main

import (
	"context"
	"errors"
	"fmt"
	"os"
	"path/filepath"
	"strings"
	"sync/atomic"

	"google.golang.org/protobuf/proto"

	"github.com/mutagen-io/mutagen/pkg/synchronization"
	"github.com/mutagen-io/mutagen/pkg/synchronization/core"
	"github.com/mutagen-io/mutagen/pkg/synchronization/endpoint/local"
	"github.com/mutagen-io/mutagen/pkg/synchronization/rsync"
)

var sessionCounter int64

// localEndpoint is a real local endpoint (beta side) over a real root plus
// what the harness needs to know about it.
type localEndpoint struct {
	ep          synchronization.Endpoint
	root        string
	session     string
	stagingRoot string
}

// newLocalEndpoint creates a real beta endpoint over root.
func newLocalEndpoint(prop, root string, cfg *synchronization.Configuration) (*localEndpoint, error) {
	n := atomic.AddInt64(&sessionCounter, 1)
	return newLocalEndpointSession(root, cfg, fmt.Sprintf("verif%s-%d-%d", prop, os.Getpid(), n))
}

// newLocalEndpointSession creates a real beta endpoint for an existing session
// identifier (a "restarted" endpoint finds the staging root and cache of its predecessor).
func newLocalEndpointSession(root string, cfg *synchronization.Configuration, session string) (*localEndpoint, error) {
	ep, err := local.NewEndpoint(nil, root, session, synchronization.Version_Version1, cfg, false)
	if err != nil {
		return nil, err
	}
	le := &localEndpoint{ep: ep, root: root, session: session}
	switch cfg.StageMode {
	case synchronization.StageMode_StageModeNeighboring:
		le.stagingRoot = filepath.Join(filepath.Dir(root), ".mutagen-temporary-staging-"+session+"-beta")
	case synchronization.StageMode_StageModeInternal:
		le.stagingRoot = filepath.Join(root, ".mutagen-temporary-staging-"+session+"-beta")
	default:
		le.stagingRoot = filepath.Join(os.Getenv("MUTAGEN_DATA_DIRECTORY"), "staging", session+"-beta")
	}
	return le, nil
}

func (le *localEndpoint) shutdown() {
	le.ep.Shutdown()
	os.RemoveAll(le.stagingRoot)
	os.Remove(filepath.Join(os.Getenv("MUTAGEN_DATA_DIRECTORY"), "caches", le.session+"_beta"))
}

// stagedDigests lists the content-addressed files in the staging root: hex
// sha1 of the CONTENT (computed here) -> number of files whose name also starts
// with that digest (i.e. files stored at an address that matches their content).
// Files whose name and content disagree are returned separately.
func (le *localEndpoint) stagedDigests() (matching map[string]int, mismatching []string) {
	matching = map[string]int{}
	filepath.Walk(le.stagingRoot, func(p string, fi os.FileInfo, err error) error {
		if err != nil || !fi.Mode().IsRegular() {
			return nil
		}
		if len(filepath.Base(filepath.Dir(p))) != 2 || filepath.Dir(filepath.Dir(p)) != le.stagingRoot {
			return nil // temporary storage files directly in the staging root
		}
		d, ok := fileSha1(p)
		if !ok {
			return nil
		}
		if strings.HasPrefix(filepath.Base(p), hexd(d)) {
			matching[hexd(d)]++
		} else {
			mismatching = append(mismatching, filepath.Base(p))
		}
		return nil
	})
	return
}

// opRecorder is an rsync.Encoder that records the transmission stream.
type opRecorder struct {
	msgs []*rsync.Transmission
}

func (o *opRecorder) Encode(t *rsync.Transmission) error {
	o.msgs = append(o.msgs, proto.Clone(t).(*rsync.Transmission))
	return nil
}
func (o *opRecorder) Finalize() error { return nil }

// recordStream runs the real rsync.Transmit over srcRoot and returns the
// transmission stream it produced.
func recordStream(srcRoot string, paths []string, sigs []*rsync.Signature) ([]*rsync.Transmission, error) {
	rec := &opRecorder{}
	err := rsync.Transmit(srcRoot, paths, sigs, rsync.NewEncodingReceiver(rec))
	return rec.msgs, err
}

// scriptDecoder replays a (possibly tampered) stream; it fails at message index failAt (-1 = never).
type scriptDecoder struct {
	msgs   []*rsync.Transmission
	i      int
	failAt int
}

func (d *scriptDecoder) Decode(t *rsync.Transmission) error {
	if d.i == d.failAt || d.i >= len(d.msgs) {
		return errors.New("verif: transmission stream aborted")
	}
	m := d.msgs[d.i]
	d.i++
	t.ExpectedSize, t.Done, t.Error = m.ExpectedSize, m.Done, m.Error
	t.Operation = nil
	if m.Operation != nil {
		t.Operation = proto.Clone(m.Operation).(*rsync.Operation)
	}
	return nil
}
func (d *scriptDecoder) Finalize() error { return nil }

// replayStream feeds a scripted stream to a receiver through the real DecodeToReceiver
// (which also finalizes the receiver).
func replayStream(msgs []*rsync.Transmission, failAt int, files int, receiver rsync.Receiver) error {
	return rsync.DecodeToReceiver(&scriptDecoder{msgs: msgs, failAt: failAt}, uint64(files), receiver)
}

// fileIndexOfMessage returns, for every message of a stream, the index of the file it belongs to.
func fileIndexOfMessage(msgs []*rsync.Transmission) []int {
	out := make([]int, len(msgs))
	f := 0
	for i, m := range msgs {
		out[i] = f
		if m.Done {
			f++
		}
	}
	return out
}

func scanEndpoint(ep synchronization.Endpoint, full bool) (*core.Snapshot, error) {
	for try := 0; ; try++ {
		snap, err, again := ep.Scan(context.Background(), nil, full)
		if err == nil {
			return snap, nil
		}
		if !again || try >= 3 {
			return nil, err
		}
	}
}

func subsequence(sub, full []string) bool {
	i := 0
	for _, s := range full {
		if i < len(sub) && sub[i] == s {
			i++
		}
	}
	return i == len(sub)
}
