package main

import (
	"bytes"
	"encoding/json"
	"fmt"
	"os"
	"os/exec"
	"path/filepath"
	"sort"
	"strings"
	"sync"
	"sync/atomic"

	"verif/internal/vk"
)

const c09TraceSet = "copy_file_range,sendfile,splice,pwrite64,pread64,mkdirat,mkdir,unlinkat,unlink,rmdir,renameat,renameat2,rename,symlinkat,symlink,fchmodat,fchmod,chmod,fchownat,fchown,chown,lchown,openat,open,write,read,linkat,link,newfstatat,fstat,getdents64,readlinkat,getppid"

// c09Run is the outcome of one child run.
type c09Run struct {
	Spec    c09Spec
	Inject  string // strace inject expression ("" = none)
	Verdict *c09Verdict
	Events  []traceEvent
	Markers int
	Stderr  string
	Err     error
}

var c09RunCounter int64

// c09RunChild runs the child (optionally under strace, optionally with an
// injection expression) in a fresh working directory which it removes afterwards.
func c09RunChild(r *vk.Run, spec c09Spec, trace bool, inject []string) *c09Run {
	n := atomic.AddInt64(&c09RunCounter, 1)
	spec.Dir = filepath.Join(r.Scratch(), fmt.Sprintf("run-%d", n))
	shm, err := shmDir(fmt.Sprintf("C09-run-%d", n))
	out := &c09Run{Spec: spec, Inject: strings.Join(inject, " ")}
	if err != nil {
		out.Err = err
		return out
	}
	spec.Shm = shm
	os.MkdirAll(spec.Dir, 0o755)
	defer func() {
		os.RemoveAll(spec.Dir)
		os.RemoveAll(spec.Shm)
	}()
	specJSON, _ := json.Marshal(spec)
	bin := os.Getenv("VERIF_BIN")
	if bin == "" {
		bin, _ = os.Executable()
	}
	var cmd *exec.Cmd
	logPath := filepath.Join(spec.Dir, "strace.log")
	if trace {
		args := []string{"-f", "-o", logPath, "-e", "trace=" + c09TraceSet}
		for _, in := range inject {
			args = append(args, "-e", "inject="+in)
		}
		args = append(args, bin)
		cmd = exec.Command("strace", args...)
	} else {
		cmd = exec.Command(bin)
	}
	cmd.Env = append(os.Environ(), roleEnv+"=c09child", "C09_SPEC="+string(specJSON), "GOMAXPROCS=2")
	var stdout, stderr bytes.Buffer
	cmd.Stdout, cmd.Stderr = &stdout, &stderr
	runErr := cmd.Run()
	out.Stderr = stderr.String()
	if len(out.Stderr) > 4000 {
		out.Stderr = out.Stderr[:4000]
	}
	for _, line := range strings.Split(stdout.String(), "\n") {
		if strings.HasPrefix(line, "C09VERDICT ") {
			v := &c09Verdict{}
			if json.Unmarshal([]byte(strings.TrimPrefix(line, "C09VERDICT ")), v) == nil {
				out.Verdict = v
			}
		}
	}
	if out.Verdict == nil && runErr != nil {
		out.Err = runErr
	}
	if trace {
		out.Events, out.Markers, _ = parseTrace(logPath)
	}
	return out
}

// c09FaultPoint is one syscall of the baseline bracket.
type c09FaultPoint struct {
	Name    string
	Ordinal int
	Index   int
}

var (
	// Only errnos that report a FAILURE are injected. Errnos that state a fact about the
	// filesystem (ENOENT, EEXIST, ENOTDIR, ELOOP, ENOTEMPTY) would make strace lie to the code:
	// e.g. ENOENT from fstatat of an existing directory entry legitimately means "vanished
	// concurrently" to Directory.ReadContents, and the result then cannot describe the disk.
	// EXDEV (and the renameat2 capability errnos) are the exception the property names.
	c09BaseErrnos    = []string{"EIO", "EACCES", "ENOSPC"}
	c09SpecialErrnos = []string{"EPERM", "EINTR", "EROFS", "ENOMEM", "EDQUOT"}
	c09RenameErrnos  = []string{"EXDEV", "EINVAL", "ENOSYS", "EOPNOTSUPP"}
)

func isRename(name string) bool {
	return name == "renameat" || name == "renameat2" || name == "rename"
}

// sigObject splits a role into (object kind, phase).
func sigObject(role string) (string, string) {
	if i := strings.Index(role, "<-"); i >= 0 {
		role = role[:i]
	}
	switch {
	case strings.HasPrefix(role, "new-"):
		return strings.TrimPrefix(role, "new-"), "create"
	case strings.HasPrefix(role, "old-"):
		return strings.TrimPrefix(role, "old-"), "remove"
	}
	return role, "other"
}

func c09() {
	r := vk.Start("C09", "fault_enumeration")
	if _, err := exec.LookPath("strace"); err != nil {
		r.Inconclusive("strace-not-available")
		r.Finish("strace is required for fault enumeration", 10)
	}
	plans := r.Pick(10, 25)
	workers := 16

	q := newWorkQueue(workers)
	var mu sync.Mutex
	coverage := map[string]int{}  // syscall/role -> faults hit
	outcomes := map[string]int{}  // result pattern -> count
	inprocess := map[string]int{} // in-process mode -> cases
	bracketLens := []int{}
	sampled := 0

	judge := func(run *c09Run, label string, fp *c09FaultPoint, errno string, multi bool) {
		r.Eval(1)
		witness := map[string]any{"spec": run.Spec, "inject": run.Inject, "case": label}
		if run.Err != nil && run.Verdict == nil {
			// No verdict at all.
			hit := false
			for _, e := range run.Events {
				if e.Injected && e.InBracket {
					hit = true
				}
			}
			if hit || !strings.Contains(label, "inject") {
				witness["stderr"] = run.Stderr
				witness["error"] = run.Err.Error()
				r.Violation(map[string]string{"rule": "child-died-without-verdict", "case": strings.SplitN(label, ":", 2)[0]},
					"the child running core.Transition ended without a verdict (crash in the code under test?)", witness)
			} else {
				r.Inconclusive("child-failed-outside-bracket")
				fmt.Printf("C09 inconclusive (%s): child failed outside the bracket: %v; stderr: %s\n", label, run.Err, firstLine(run.Stderr))
			}
			return
		}
		v := run.Verdict
		if v == nil {
			r.Inconclusive("no-verdict")
			return
		}
		witness["verdict"] = v
		syscallName, role := "", ""
		if fp != nil {
			// Locate what was actually hit in this run.
			cl := &objectClassifier{roles: v.Roles, root: v.Root, staging: v.Staging, fds: map[int]string{}}
			hits, outside := 0, 0
			for _, e := range run.Events {
				ro := cl.observe(e)
				if e.Injected {
					if e.InBracket {
						hits++
						if syscallName == "" {
							syscallName, role = e.Name, ro
							witness["hit"] = fmt.Sprintf("%s(%s) = %s", e.Name, e.Args, e.Ret)
						}
					} else {
						outside++
					}
				}
			}
			if run.Markers != 2 || hits == 0 || outside > 0 {
				r.Inconclusive("injection-not-inside-bracket")
				return
			}
			if !multi && hits != 1 {
				r.Inconclusive("injection-count-unexpected")
				return
			}
		}
		switch v.Stage {
		case "panic":
			r.Violation(map[string]string{"rule": "panic", "syscall": syscallName}, "core.Transition panicked: "+firstLine(v.Err), witness)
			return
		case "setup-error":
			r.Inconclusive("setup-error")
			return
		case "scan-error":
			if strings.HasPrefix(v.Err, "apply:") {
				r.Violation(map[string]string{"rule": "results-not-applicable", "syscall": syscallName}, "the reported results cannot be applied to the scanned content: "+v.Err, witness)
			} else {
				r.Inconclusive("post-scan-error")
			}
			return
		}
		// Conclusive case.
		var pattern []string
		for _, c := range v.Changes {
			pattern = append(pattern, c.Kind+":"+c.ResultIs)
		}
		sort.Strings(pattern)
		obj, phase := sigObject(role)
		mu.Lock()
		if fp != nil {
			coverage[syscallName+"/"+role]++
			r.Distinct("fault|" + syscallName + "|" + role + "|" + errno)
		} else {
			inprocess[strings.SplitN(label, ":", 2)[0]]++
			var np []string
			for _, p := range pattern {
				if !strings.HasSuffix(p, ":new") {
					np = append(np, p)
				}
			}
			r.Distinct("inproc|" + strings.SplitN(label, ":", 2)[0] + "|" + strings.Join(np, ","))
		}
		outcomes[strings.Join(pattern, ",")]++
		if sampled < 5 && fp != nil && (len(v.Problems) > 0 || sampled >= 3) {
			sampled++
			r.Sample(map[string]any{"plan": run.Spec.Plan, "inject": run.Inject, "hit": witness["hit"], "object": role, "results": pattern, "problems": v.Problems, "agree": v.Agree})
		}
		mu.Unlock()
		if !v.Agree {
			sig := map[string]string{"rule": "result-disagrees-with-disk"}
			if fp != nil {
				sig["syscall"], sig["object"], sig["phase"] = syscallName, obj, phase
				if multi {
					sig["faults"] = "multiple"
				}
			} else {
				sig["case"] = strings.SplitN(label, ":", 2)[0]
			}
			r.Violation(sig, fmt.Sprintf("after %s the cold scan differs from Apply(pre-scan, results) at %q: results imply %s, disk has %s",
				label, v.DiffPath, v.Expected, v.Got), witness)
		}
		if len(v.Temps) > 0 && !multi {
			sig := map[string]string{"rule": "temporary-left-behind"}
			if fp != nil {
				sig["syscall"], sig["object"] = syscallName, obj
			} else {
				sig["case"] = strings.SplitN(label, ":", 2)[0]
			}
			r.Violation(sig, fmt.Sprintf("after %s the root still holds temporary files %v that no reported entry describes", label, v.Temps), witness)
		}
	}

	rng := r.Rand("errnos")
	submit := q.submit
	for p := 0; p < plans; p++ {
		p := p
		errnoShift := rng.Intn(1000)
		multiSeed := rng.Int63()
		submit(func() {
			spec := c09Spec{Seed: r.Seed, Plan: p}
			fmt.Printf("C09 plan %d: baseline\n", p)
			base := c09RunChild(r, spec, true, nil)
			r.Eval(1)
			if base.Verdict == nil || base.Verdict.Stage != "done" || base.Markers != 2 {
				r.Inconclusive("baseline-failed")
				fmt.Printf("C09 plan %d: baseline failed: %v %s\n", p, base.Err, base.Stderr)
				return
			}
			if !base.Verdict.Agree || len(base.Verdict.Temps) > 0 {
				r.Violation(map[string]string{"rule": "result-disagrees-with-disk", "case": "no-fault"},
					fmt.Sprintf("without any fault the cold scan differs from Apply(pre-scan, results) at %q (expected %s, disk %s; temporaries %v)",
						base.Verdict.DiffPath, base.Verdict.Expected, base.Verdict.Got, base.Verdict.Temps),
					map[string]any{"spec": spec, "verdict": base.Verdict})
				return
			}
			for _, c := range base.Verdict.Changes {
				if c.ResultIs != "new" {
					// Liveness control: an unfaulted transition must succeed.
					r.Inconclusive("baseline-transition-incomplete")
					fmt.Printf("C09 plan %d: baseline transition incomplete: %+v %v\n", p, c, base.Verdict.Problems)
					return
				}
			}
			r.Count("baseline_plans", 1)
			if base.Verdict.CrossDevice {
				r.Count("plans_staged_on_other_device", 1)
			}
			if base.Verdict.Ownership != "/" {
				r.Count("plans_with_ownership", 1)
			}
			var kinds []string
			for _, c := range base.Verdict.Changes {
				kinds = append(kinds, c.Kind)
			}
			sort.Strings(kinds)
			r.Distinct("plan|" + strings.Join(kinds, ",") + fmt.Sprint(base.Verdict.CrossDevice, base.Verdict.Ownership))

			// Fault points of the baseline bracket.
			var fps []c09FaultPoint
			perName := map[string][]int{}
			for _, e := range base.Events {
				if e.InBracket {
					fps = append(fps, c09FaultPoint{Name: e.Name, Ordinal: e.Ordinal, Index: len(fps)})
					perName[e.Name] = append(perName[e.Name], e.Ordinal)
				}
			}
			mu.Lock()
			bracketLens = append(bracketLens, len(fps))
			mu.Unlock()
			r.Count("baseline_bracket_syscalls", int64(len(fps)))
			for i := range fps {
				fp := fps[i]
				var errnos []string
				if r.Quick() {
					all := append(append([]string{}, c09BaseErrnos...), c09SpecialErrnos...)
					errnos = append(errnos, all[(i+errnoShift)%len(all)])
					if isRename(fp.Name) {
						errnos = append(errnos, "EXDEV")
					}
					if fp.Name == "renameat2" {
						errnos = append(errnos, c09RenameErrnos[1+(i+errnoShift)%(len(c09RenameErrnos)-1)])
					}
				} else {
					errnos = append(errnos, c09BaseErrnos...)
					errnos = append(errnos, c09SpecialErrnos[(i+errnoShift)%len(c09SpecialErrnos)], c09SpecialErrnos[(i+errnoShift+2)%len(c09SpecialErrnos)])
					if isRename(fp.Name) {
						errnos = append(errnos, "EXDEV")
					}
					if fp.Name == "renameat2" {
						errnos = append(errnos, c09RenameErrnos[1:]...)
					}
				}
				for _, errno := range errnos {
					errno := errno
					submit(func() {
						inj := fmt.Sprintf("%s:error=%s:when=%d", fp.Name, errno, fp.Ordinal)
						label := fmt.Sprintf("inject:%s", inj)
						fmt.Printf("C09 plan %d index %d: %s\n", p, fp.Index, inj)
						run := c09RunChild(r, spec, true, []string{inj})
						judge(run, label, &fp, errno, false)
					})
				}
			}
			// Double/multiple faults (thorough): a window of consecutive calls of one syscall fails.
			if !r.Quick() {
				mr := newRand(multiSeed)
				names := make([]string, 0, len(perName))
				for n := range perName {
					names = append(names, n)
				}
				sort.Strings(names)
				for _, n := range names {
					ords := perName[n]
					if len(ords) < 2 {
						continue
					}
					for t := 0; t < 3; t++ {
						a := mr.Intn(len(ords) - 1)
						b := a + 1 + mr.Intn(minInt(3, len(ords)-1-a))
						errno := c09BaseErrnos[mr.Intn(3)]
						inj := fmt.Sprintf("%s:error=%s:when=%d..%d", n, errno, ords[a], ords[b])
						fp := c09FaultPoint{Name: n, Ordinal: ords[a]}
						submit(func() {
							fmt.Printf("C09 plan %d multi: %s\n", p, inj)
							run := c09RunChild(r, spec, true, []string{inj})
							judge(run, "inject-multi:"+inj, &fp, errno, true)
						})
					}
				}
			}
			// In-process faults (no strace).
			type ip struct {
				mode string
				k    int
			}
			var ips []ip
			for k := 1; k <= base.Verdict.StagedFiles; k++ {
				ips = append(ips, ip{"missing", k})
			}
			for k := 1; k <= base.Verdict.ProvideCalls; k++ {
				ips = append(ips, ip{"provider-error", k}, ip{"vanish", k}, ip{"cancel-in-provide", k})
			}
			ips = append(ips, ip{"cancel-before", 0})
			for _, c := range ips {
				c := c
				submit(func() {
					s := spec
					s.Mode, s.K = c.mode, c.k
					fmt.Printf("C09 plan %d in-process: %s k=%d\n", p, c.mode, c.k)
					run := c09RunChild(r, s, false, nil)
					judge(run, fmt.Sprintf("%s:k=%d", c.mode, c.k), nil, "", false)
				})
			}
		})
	}
	// Cancellation while a > 32 MiB staged file is copied across devices (the copy is
	// preemptable every 1024 writes of 32 KiB): a create and a swap.
	for i := 0; i < r.Pick(2, 12); i++ {
		s := c09Spec{Seed: r.Seed, Plan: 200000 + i/2, Mode: "cancel-copy", K: i}
		submit(func() {
			fmt.Printf("C09 cancellation during a cross-device copy: plan %d variant %d\n", s.Plan, s.K%2)
			run := c09RunChild(r, s, false, nil)
			if run.Verdict != nil && run.Verdict.Stage == "done" {
				if run.Verdict.Preempted {
					r.Count("cross_device_copies_preempted", 1)
				} else {
					r.Inconclusive("cross-device-copy-not-preempted")
				}
			}
			judge(run, fmt.Sprintf("cancel-copy:variant=%d", s.K%2), nil, "", false)
		})
	}
	// Randomly timed cancellation during a large removal.
	timed := r.Pick(8, 200)
	trng := r.Rand("cancel-timer")
	for i := 0; i < timed; i++ {
		s := c09Spec{Seed: r.Seed, Plan: 100000 + i%5, Mode: "cancel-timer", K: trng.Intn(40000)}
		submit(func() {
			fmt.Printf("C09 timed cancellation: plan %d after %dus\n", s.Plan, s.K)
			run := c09RunChild(r, s, false, nil)
			judge(run, fmt.Sprintf("cancel-timer:us=%d", s.K), nil, "", false)
		})
	}
	q.wait()

	r.Note("faults_hit_by_syscall_and_object", coverage)
	r.Note("result_patterns", len(outcomes))
	r.Note("in_process_cases", inprocess)
	total := 0
	for _, n := range coverage {
		total += n
	}
	r.Count("faults_hit_inside_bracket", int64(total))
	r.Count("distinct_syscall_object_pairs", int64(len(coverage)))
	sort.Ints(bracketLens)
	if len(bracketLens) > 0 {
		r.Note("bracket_length_min_max", []int{bracketLens[0], bracketLens[len(bracketLens)-1]})
	}
	r.Assume("one injected failure per run (thorough adds windows of consecutive failures of one syscall); the fault is injected by strace into the child's main thread, which runs core.Transition with the main goroutine pinned")
	r.Assume("close() failures are not injected; ext4 preserves executability, so executability is part of the comparison")
	r.Assume("a run counts only if its own strace log shows (INJECTED) between the two marker syscalls; the object hit is read from that log because Go map iteration reorders operations between runs")
	r.Finish("per plan (3-6 changes: directory removal, swaps, type changes, nested creation, links, with/without id:0 ownership, staging on ext4 or tmpfs): every syscall index of the bracketed baseline sequence x errno set, plus in-process faults (staged file missing/vanishing, provider error, cancellation before / inside the k-th Provide / timed); verdict = cold scan deep-equals Apply(pre-scan, results); distinct = (syscall, role of the object hit, errno) of faults really hit, in-process (mode, non-complete results), plan shapes", 40)
}

func firstLine(s string) string {
	if i := strings.Index(s, "\n"); i >= 0 {
		return s[:i]
	}
	return s
}

func minInt(a, b int) int {
	if a < b {
		return a
	}
	return b
}
