package main

import (
	"context"
	"encoding/json"
	"errors"
	"fmt"
	"hash/fnv"
	"math/rand"
	"os"
	"path/filepath"
	"runtime/debug"
	"sort"
	"strings"
	"time"

	"github.com/mutagen-io/mutagen/pkg/filesystem"
	"github.com/mutagen-io/mutagen/pkg/filesystem/behavior"
	"github.com/mutagen-io/mutagen/pkg/synchronization/core"

	"verif/internal/fsx"
)

// c09Spec is what the parent hands to one child run (env C09_SPEC, JSON).
type c09Spec struct {
	Seed int64  `json:"seed"`
	Plan int    `json:"plan"`
	Mode string `json:"mode"` // "" (plain; faults come from strace), missing, provider-error, vanish, cancel-before, cancel-in-provide, cancel-timer
	K    int    `json:"k"`    // ordinal for the in-process modes (k-th staged file / k-th Provide call / microseconds)
	Dir  string `json:"dir"`  // ext4 working directory of this run
	Shm  string `json:"shm"`  // tmpfs working directory of this run
}

type c09ChangeOut struct {
	Path     string `json:"path"`
	Kind     string `json:"kind"`
	Old      string `json:"old"`
	New      string `json:"new"`
	Result   string `json:"result"`
	ResultIs string `json:"result_is"` // old | new | nil | partial
}

// c09Verdict is the child's one-line answer.
type c09Verdict struct {
	Stage        string            `json:"stage"` // done | setup-error | scan-error | panic
	Err          string            `json:"err,omitempty"`
	Agree        bool              `json:"agree"`
	DiffPath     string            `json:"diff_path,omitempty"`
	Expected     string            `json:"expected,omitempty"`
	Got          string            `json:"got,omitempty"`
	Changes      []c09ChangeOut    `json:"changes"`
	Problems     []string          `json:"problems"`
	Missing      bool              `json:"missing"`
	Temps        []string          `json:"temps,omitempty"`
	Roles        map[string]string `json:"roles"`
	Root         string            `json:"root"`
	Staging      string            `json:"staging"`
	ProvideCalls int               `json:"provide_calls"`
	StagedFiles  int               `json:"staged_files"`
	Ownership    string            `json:"ownership"`
	CrossDevice  bool              `json:"cross_device"`
	ChangedDisk  bool              `json:"changed_disk"`
	Preempted    bool              `json:"copy_preempted"`
}

// newNode describes the New side of a planned change before it becomes a core.Entry.
type newNode struct {
	kind     string // file | dir | symlink
	content  []byte
	exec     bool
	target   string
	children map[string]*newNode
}

type c09Change struct {
	kind string
	path string
	new  *newNode // nil = deletion
	same bool     // New = Old with executability flipped (no staging)
}

type c09Plan struct {
	tree       fsx.Tree
	changes    []c09Change
	owner      string
	group      string
	shmStaging bool
	fileMode   filesystem.Mode
	dirMode    filesystem.Mode
	roles      map[string]string
	bigPath    string // path of the large file of the bigcopy variants
}

func c09Rand(seed int64, plan int) *rand.Rand {
	h := fnv.New64a()
	fmt.Fprintf(h, "C09|%d|plan|%d", seed, plan)
	return rand.New(rand.NewSource(int64(h.Sum64())))
}

var c09Menu = []string{"deepmk", "rmdir", "swap", "xbit", "file2dir", "dir2file", "mkdirs", "mklink", "mkfile", "rmfile", "rmlink", "link2file", "swap", "mkdirs", "mklink"}

func c09Content(r *rand.Rand) []byte {
	sizes := []int{0, 1, 17, 300, 2000, 5000, 40000, 70000}
	return content(r, sizes[r.Intn(len(sizes))])
}

// c09MakePlan builds tree and plan as a pure function of (seed, plan index).
// c09BigFileSize exceeds the 32 MiB (1024 writes x 32 KiB) after which the cross-device copy
// of findAndMoveStagedFileIntoPlace checks for preemption.
const c09BigFileSize = 40 << 20

func c09MakePlan(seed int64, planIndex int, variant string) *c09Plan {
	r := c09Rand(seed, planIndex)
	p := &c09Plan{tree: fsx.Tree{}, roles: map[string]string{}}
	p.tree["pa"] = &fsx.Node{Kind: fsx.KDir}
	p.tree["pa/pb"] = &fsx.Node{Kind: fsx.KDir}
	p.tree["pa/keep"] = &fsx.Node{Kind: fsx.KFile, Content: []byte("keep"), Mode: 0o644}
	p.roles["pa"], p.roles["pb"], p.roles["keep"] = "parent", "parent", "bystander"
	switch r.Intn(4) {
	case 0:
		p.owner = "id:0"
	case 1:
		p.owner, p.group = "id:0", "id:0"
	}
	// Every second plan (by index) is guaranteed an ownership specification so
	// that fchownat really runs even in small samples.
	if planIndex%2 == 1 && p.owner == "" {
		p.owner = "id:0"
	}
	p.shmStaging = r.Intn(3) == 0
	p.fileMode = []filesystem.Mode{0o600, 0o644}[r.Intn(2)]
	p.dirMode = []filesystem.Mode{0o700, 0o755}[r.Intn(2)]

	n := 3 + r.Intn(4)
	perm := r.Perm(len(c09Menu))
	used := map[string]int{}
	var kinds []string
	for _, i := range perm {
		k := c09Menu[i]
		if used[k] >= 2 || (used[k] >= 1 && k != "swap" && k != "mklink") {
			continue
		}
		used[k]++
		kinds = append(kinds, k)
		if len(kinds) == n {
			break
		}
	}
	// Every third plan is guaranteed a deep creation (a chain of directories with files only at
	// the bottom levels), so that faults two and more levels below a directory being created occur.
	if planIndex%3 == 0 && used["deepmk"] == 0 {
		kinds = append([]string{"deepmk"}, kinds...)
		if len(kinds) > 6 {
			kinds = kinds[:6]
		}
	}
	switch variant {
	case "bigrm":
		kinds = append([]string{"bigrm"}, kinds...)
	case "bigcopy-create":
		kinds = append([]string{"bigcreate"}, kinds...)
		p.shmStaging = true
	case "bigcopy-swap":
		kinds = append([]string{"bigswap"}, kinds...)
		p.shmStaging = true
	}
	bigContent := func() []byte {
		out := make([]byte, c09BigFileSize)
		copy(out, fsx.UniqueToken(r, 64))
		return out
	}
	file := func(name string, exec bool) *newNode {
		p.roles[name] = "new-file"
		return &newNode{kind: "file", content: c09Content(r), exec: exec}
	}
	link := func(name, target string) *newNode {
		p.roles[name] = "new-symlink"
		return &newNode{kind: "symlink", target: target}
	}
	dir := func(name string, ch map[string]*newNode) *newNode {
		p.roles[name] = "new-dir"
		return &newNode{kind: "dir", children: ch}
	}
	mode := func(x bool) os.FileMode {
		if x {
			return 0o755
		}
		return 0o644
	}
	for i, k := range kinds {
		base := fmt.Sprintf("c%d", i)
		parent := []string{"", "pa", "pa/pb"}[r.Intn(3)]
		path := base
		if parent != "" {
			path = parent + "/" + base
		}
		ch := c09Change{kind: k, path: path}
		switch k {
		case "rmdir", "bigrm":
			p.tree[path] = &fsx.Node{Kind: fsx.KDir}
			p.tree[path+"/"+base+"_f1"] = &fsx.Node{Kind: fsx.KFile, Content: c09Content(r), Mode: 0o644}
			p.tree[path+"/"+base+"_f2"] = &fsx.Node{Kind: fsx.KFile, Content: c09Content(r), Mode: 0o755}
			p.tree[path+"/"+base+"_l"] = &fsx.Node{Kind: fsx.KLink, Target: base + "_f1"}
			p.tree[path+"/"+base+"_sub"] = &fsx.Node{Kind: fsx.KDir}
			p.tree[path+"/"+base+"_sub/"+base+"_g"] = &fsx.Node{Kind: fsx.KFile, Content: c09Content(r), Mode: 0o600}
			p.roles[base], p.roles[base+"_f1"], p.roles[base+"_f2"], p.roles[base+"_l"], p.roles[base+"_sub"], p.roles[base+"_g"] =
				"old-dir", "old-file", "old-file", "old-symlink", "old-dir", "old-file"
			if k == "bigrm" {
				for j := 0; j < 1500; j++ {
					name := fmt.Sprintf("%s_n%d", base, j)
					p.tree[path+"/"+name] = &fsx.Node{Kind: fsx.KFile, Content: []byte(name), Mode: 0o644}
				}
			}
		case "bigcreate":
			ch.new = file(base, false)
			ch.new.content = bigContent()
			p.bigPath = path
		case "bigswap":
			p.tree[path] = &fsx.Node{Kind: fsx.KFile, Content: c09Content(r), Mode: 0o644}
			ch.new = file(base, false)
			ch.new.content = bigContent()
			p.roles[base] = "swap-file"
			p.bigPath = path
		case "swap":
			x := r.Intn(2) == 0
			p.tree[path] = &fsx.Node{Kind: fsx.KFile, Content: c09Content(r), Mode: mode(x)}
			ch.new = file(base, r.Intn(2) == 0)
			p.roles[base] = "swap-file"
		case "xbit":
			x := r.Intn(2) == 0
			p.tree[path] = &fsx.Node{Kind: fsx.KFile, Content: c09Content(r), Mode: mode(x)}
			ch.same = true
			p.roles[base] = "xbit-file"
		case "file2dir":
			p.tree[path] = &fsx.Node{Kind: fsx.KFile, Content: c09Content(r), Mode: 0o644}
			ch.new = dir(base, map[string]*newNode{
				base + "_f":   file(base+"_f", false),
				base + "_l":   link(base+"_l", base+"_f"),
				base + "_sub": dir(base+"_sub", map[string]*newNode{base + "_g": file(base+"_g", true)}),
			})
			p.roles[base] = "retype"
		case "dir2file":
			p.tree[path] = &fsx.Node{Kind: fsx.KDir}
			p.tree[path+"/"+base+"_f"] = &fsx.Node{Kind: fsx.KFile, Content: c09Content(r), Mode: 0o644}
			p.roles[base+"_f"] = "old-file"
			ch.new = file(base, false)
			p.roles[base] = "retype"
		case "mkdirs":
			ch.new = dir(base, map[string]*newNode{
				base + "_f1":    file(base+"_f1", false),
				base + "_f2":    file(base+"_f2", true),
				base + "_l":     link(base+"_l", base+"_f1"),
				base + "_sub":   dir(base+"_sub", map[string]*newNode{base + "_g": file(base+"_g", false)}),
				base + "_empty": dir(base+"_empty", nil),
			})
		case "deepmk":
			// base/{README, s1/{s2/{f1, f2, s3/{g1, g2}}}}
			ch.new = dir(base, map[string]*newNode{
				base + "_README": file(base+"_README", false),
				base + "_s1": dir(base+"_s1", map[string]*newNode{
					base + "_s2": dir(base+"_s2", map[string]*newNode{
						base + "_f1": file(base+"_f1", false),
						base + "_f2": file(base+"_f2", true),
						base + "_s3": dir(base+"_s3", map[string]*newNode{
							base + "_g1": file(base+"_g1", false),
							base + "_g2": file(base+"_g2", false),
						}),
					}),
				}),
			})
		case "mklink":
			ch.new = link(base, []string{"keep", "pa/keep", "nowhere/x"}[r.Intn(3)])
			if parent != "" {
				ch.new.target = "keep"
			}
		case "mkfile":
			ch.new = file(base, r.Intn(2) == 0)
		case "rmfile":
			p.tree[path] = &fsx.Node{Kind: fsx.KFile, Content: c09Content(r), Mode: 0o644}
			p.roles[base] = "old-file"
		case "rmlink":
			p.tree[path] = &fsx.Node{Kind: fsx.KLink, Target: "keep"}
			p.roles[base] = "old-symlink"
		case "link2file":
			p.tree[path] = &fsx.Node{Kind: fsx.KLink, Target: "keep"}
			ch.new = file(base, false)
			p.roles[base] = "retype"
		}
		p.changes = append(p.changes, ch)
	}
	return p
}

// c09Provider hands out the paths of files the child staged itself.
type c09Provider struct {
	files  map[string]string // path|hexdigest -> staged file
	dir    string
	calls  int
	mode   string
	k      int
	cancel func()
	// bigPath: in mode cancel-copy the transition is cancelled from inside the Provide call for
	// this path, i.e. after Transition's own per-change check and before the cross-device copy.
	bigPath string
}

func (p *c09Provider) Provide(path string, digest []byte) (string, error) {
	p.calls++
	sp, ok := p.files[path+"|"+hexd(digest)]
	if !ok {
		sp = filepath.Join(p.dir, "never-staged-"+hexd(digest))
	}
	if p.mode == "cancel-copy" && path == p.bigPath {
		p.cancel()
	}
	if p.calls == p.k && p.mode != "cancel-copy" {
		switch p.mode {
		case "provider-error":
			return "", errors.New("verif: provider failure")
		case "vanish":
			os.Remove(sp)
		case "cancel-in-provide":
			p.cancel()
		}
	}
	return sp, nil
}

func c09Emit(v *c09Verdict) {
	data, _ := json.Marshal(v)
	fmt.Printf("C09VERDICT %s\n", data)
	os.Stdout.Sync()
}

func c09ChildMain() {
	v := &c09Verdict{Stage: "setup-error"}
	defer func() {
		if p := recover(); p != nil {
			v.Stage = "panic"
			v.Err = fmt.Sprintf("%v\n%s", p, debug.Stack())
			c09Emit(v)
			os.Exit(0)
		}
	}()
	var spec c09Spec
	if err := json.Unmarshal([]byte(os.Getenv("C09_SPEC")), &spec); err != nil {
		v.Err = "bad spec: " + err.Error()
		c09Emit(v)
		return
	}
	fail := func(stage string, err error) {
		v.Stage, v.Err = stage, err.Error()
		c09Emit(v)
	}
	variant := ""
	switch spec.Mode {
	case "cancel-timer":
		variant = "bigrm"
	case "cancel-copy":
		variant = []string{"bigcopy-create", "bigcopy-swap"}[spec.K%2]
	}
	plan := c09MakePlan(spec.Seed, spec.Plan, variant)
	v.Roles = plan.roles
	root := filepath.Join(spec.Dir, "root")
	staging := filepath.Join(spec.Dir, "staging")
	if plan.shmStaging {
		staging = filepath.Join(spec.Shm, "staging")
		v.CrossDevice = true
	}
	v.Root, v.Staging = root, staging
	v.Ownership = plan.owner + "/" + plan.group
	if err := fsx.Materialize(root, plan.tree); err != nil {
		fail("setup-error", err)
		return
	}
	if err := os.MkdirAll(staging, 0o700); err != nil {
		fail("setup-error", err)
		return
	}

	// Pre-scan.
	cfg := fsx.DefaultScanConfig()
	cfg.ProbeMode = behavior.ProbeMode_ProbeModeAssume
	pre, err := fsx.Cold(root, cfg)
	if err != nil {
		fail("setup-error", fmt.Errorf("pre-scan: %w", err))
		return
	}

	// Build the changes and stage what they need.
	provider := &c09Provider{files: map[string]string{}, dir: staging, mode: spec.Mode, k: spec.K, bigPath: plan.bigPath}
	type stagedFile struct {
		key     string
		content []byte
	}
	var staged []stagedFile
	var build func(path string, n *newNode) *core.Entry
	build = func(path string, n *newNode) *core.Entry {
		switch n.kind {
		case "file":
			d := sha1Of(n.content)
			staged = append(staged, stagedFile{path + "|" + hexd(d), n.content})
			return &core.Entry{Kind: core.EntryKind_File, Digest: d, Executable: n.exec}
		case "symlink":
			return &core.Entry{Kind: core.EntryKind_SymbolicLink, Target: n.target}
		default:
			e := &core.Entry{Kind: core.EntryKind_Directory}
			if len(n.children) > 0 {
				e.Contents = map[string]*core.Entry{}
				names := make([]string, 0, len(n.children))
				for name := range n.children {
					names = append(names, name)
				}
				sort.Strings(names)
				for _, name := range names {
					e.Contents[name] = build(path+"/"+name, n.children[name])
				}
			}
			return e
		}
	}
	var changes []*core.Change
	for _, ch := range plan.changes {
		old := entryAt(pre.Snapshot.Content, ch.path)
		c := &core.Change{Path: ch.path, Old: old}
		if ch.same {
			c.New = &core.Entry{Kind: core.EntryKind_File, Digest: old.Digest, Executable: !old.Executable}
		} else if ch.new != nil {
			c.New = build(ch.path, ch.new)
		}
		changes = append(changes, c)
	}
	sort.Slice(staged, func(i, j int) bool { return staged[i].key < staged[j].key })
	for i, s := range staged {
		if spec.Mode == "missing" && i+1 == spec.K {
			continue
		}
		sp := filepath.Join(staging, fmt.Sprintf("st_%03d", i))
		if err := os.WriteFile(sp, s.content, 0o600); err != nil {
			fail("setup-error", err)
			return
		}
		provider.files[s.key] = sp
	}
	v.StagedFiles = len(staged)

	var ownership *filesystem.OwnershipSpecification
	if plan.owner != "" || plan.group != "" {
		ownership, err = filesystem.NewOwnershipSpecification(plan.owner, plan.group)
		if err != nil {
			fail("setup-error", err)
			return
		}
	}
	ctx, cancel := context.WithCancel(context.Background())
	defer cancel()
	provider.cancel = cancel
	switch spec.Mode {
	case "cancel-before":
		cancel()
	case "cancel-timer":
		go func() {
			time.Sleep(time.Duration(spec.K) * time.Microsecond)
			cancel()
		}()
	}

	// The bracketed code under test.
	os.Getppid()
	results, problems, missing := core.Transition(ctx, root, changes, pre.Cache,
		core.SymbolicLinkMode_SymbolicLinkModePortable, plan.fileMode, plan.dirMode, ownership, false, provider)
	os.Getppid()

	v.ProvideCalls = provider.calls
	v.Missing = missing
	for _, p := range problems {
		v.Problems = append(v.Problems, p.Path+": "+p.Error)
	}
	if len(results) != len(changes) {
		v.Stage = "done"
		v.Agree = false
		v.DiffPath = "(result count)"
		v.Expected, v.Got = fmt.Sprint(len(changes)), fmt.Sprint(len(results))
		c09Emit(v)
		return
	}
	var asChanges []*core.Change
	for i, c := range changes {
		out := c09ChangeOut{Path: c.Path, Kind: plan.changes[i].kind, Old: describe(c.Old), New: describe(c.New), Result: describe(results[i])}
		okOld, _ := strictDiff("", results[i], c.Old)
		okNew, _ := strictDiff("", results[i], c.New)
		switch {
		case okNew:
			out.ResultIs = "new"
		case okOld:
			out.ResultIs = "old"
		case results[i] == nil:
			out.ResultIs = "nil"
		default:
			out.ResultIs = "partial"
		}
		if !okOld {
			v.ChangedDisk = true
		}
		if (plan.changes[i].kind == "bigcreate" || plan.changes[i].kind == "bigswap") && out.ResultIs != "new" {
			for _, p := range problems {
				if p.Path == c.Path && strings.Contains(p.Error, "transition cancelled") {
					v.Preempted = true
				}
			}
		}
		if plan.changes[i].kind == "bigrm" {
			out.Old, out.Result = "(big directory)", fmt.Sprintf("(%d entries remain)", results[i].Count())
		}
		v.Changes = append(v.Changes, out)
		asChanges = append(asChanges, &core.Change{Path: c.Path, New: results[i]})
	}
	expected, err := core.Apply(pre.Snapshot.Content, asChanges)
	if err != nil {
		fail("scan-error", fmt.Errorf("apply: %w", err))
		return
	}

	// Re-observe the disk with a cold scan.
	post, err := fsx.Cold(root, cfg)
	if err != nil {
		fail("scan-error", fmt.Errorf("post-scan: %w", err))
		return
	}
	v.Stage = "done"
	agree, where := strictDiff("", expected, post.Snapshot.Content)
	v.Agree = agree
	if !agree {
		v.DiffPath = where
		v.Expected = describe(entryAt(expected, where))
		v.Got = describe(entryAt(post.Snapshot.Content, where))
		if len(v.Expected) > 300 {
			v.Expected = v.Expected[:300] + "…"
		}
		if len(v.Got) > 300 {
			v.Got = v.Got[:300] + "…"
		}
	}
	v.Temps = temporaries(root)
	for i := range v.Temps {
		v.Temps[i] = strings.TrimPrefix(v.Temps[i], root+"/")
	}
	c09Emit(v)
}
