package main

import (
	"crypto/sha1"
	"encoding/hex"
	"fmt"
	"math/rand"
	"os"
	"path/filepath"
	"sort"
	"strconv"
	"strings"
	"sync"
	"time"

	"github.com/mutagen-io/mutagen/pkg/synchronization/core"

	"verif/internal/fsx"
)

func itoa(i int) string { return strconv.Itoa(i) }

func sha1Of(data []byte) []byte {
	s := sha1.Sum(data)
	return s[:]
}

func hexd(d []byte) string { return hex.EncodeToString(d) }

// short renders the first bytes of a digest.
func short(d []byte) string {
	h := hexd(d)
	if len(h) > 8 {
		h = h[:8]
	}
	return h
}

// describe renders an entry tree compactly with hexadecimal digests.
func describe(e *core.Entry) string {
	if e == nil {
		return "-"
	}
	switch e.Kind {
	case core.EntryKind_File:
		x := ""
		if e.Executable {
			x = "+x"
		}
		return "F(" + short(e.Digest) + x + ")"
	case core.EntryKind_SymbolicLink:
		return "L(" + e.Target + ")"
	case core.EntryKind_Untracked:
		return "U"
	case core.EntryKind_Problematic:
		return "P(" + e.Problem + ")"
	case core.EntryKind_Directory, core.EntryKind_PhantomDirectory:
		names := make([]string, 0, len(e.Contents))
		for n := range e.Contents {
			names = append(names, n)
		}
		sort.Strings(names)
		var sb strings.Builder
		sb.WriteString("D{")
		for i, n := range names {
			if i > 0 {
				sb.WriteString(" ")
			}
			sb.WriteString(n + ":" + describe(e.Contents[n]))
		}
		sb.WriteString("}")
		return sb.String()
	}
	return fmt.Sprintf("?kind%d", e.Kind)
}

func kindName(e *core.Entry) string {
	if e == nil {
		return "nil"
	}
	switch e.Kind {
	case core.EntryKind_File:
		return "file"
	case core.EntryKind_SymbolicLink:
		return "symlink"
	case core.EntryKind_Directory:
		return "dir"
	case core.EntryKind_Untracked:
		return "untracked"
	case core.EntryKind_Problematic:
		return "problematic"
	}
	return "other"
}

// strictDiff compares two entry trees exactly (kind, digest, executability,
// target, children) and returns the first differing path.
func strictDiff(p string, a, b *core.Entry) (bool, string) {
	if a == nil || b == nil {
		return a == nil && b == nil, p
	}
	if a.Kind != b.Kind || a.Executable != b.Executable || string(a.Digest) != string(b.Digest) || a.Target != b.Target {
		return false, p
	}
	if a.Kind == core.EntryKind_Problematic && a.Problem != b.Problem {
		return false, p
	}
	names := map[string]bool{}
	for n := range a.Contents {
		names[n] = true
	}
	for n := range b.Contents {
		names[n] = true
	}
	sorted := make([]string, 0, len(names))
	for n := range names {
		sorted = append(sorted, n)
	}
	sort.Strings(sorted)
	for _, n := range sorted {
		q := n
		if p != "" {
			q = p + "/" + n
		}
		if ok, where := strictDiff(q, a.Contents[n], b.Contents[n]); !ok {
			return false, where
		}
	}
	return true, ""
}

// entryAt returns the entry at a slash path.
func entryAt(e *core.Entry, path string) *core.Entry {
	if path == "" {
		return e
	}
	for _, comp := range strings.Split(path, "/") {
		if e == nil {
			return nil
		}
		e = e.Contents[comp]
	}
	return e
}

// temporaries lists every name below root that carries mutagen's temporary prefix.
func temporaries(root string) []string {
	var out []string
	filepath.Walk(root, func(p string, fi os.FileInfo, err error) error {
		if err != nil || p == root {
			return nil
		}
		if strings.HasPrefix(filepath.Base(p), ".mutagen-temporary-") {
			rel, _ := filepath.Rel(root, p)
			out = append(out, rel)
		}
		return nil
	})
	sort.Strings(out)
	return out
}

// fileSha1 returns the sha1 of a regular file (no-follow); ok=false if the path is not a regular file.
func fileSha1(path string) ([]byte, bool) {
	fi, err := os.Lstat(path)
	if err != nil || !fi.Mode().IsRegular() {
		return nil, false
	}
	data, err := os.ReadFile(path)
	if err != nil {
		return nil, false
	}
	return sha1Of(data), true
}

// rootDigests maps hex sha1 -> root-relative paths of every regular file below root
// (temporary names excluded at any level).
func rootDigests(root string) map[string][]string {
	out := map[string][]string{}
	filepath.Walk(root, func(p string, fi os.FileInfo, err error) error {
		if err != nil || p == root {
			return nil
		}
		if strings.HasPrefix(filepath.Base(p), ".mutagen-temporary-") {
			if fi.IsDir() {
				return filepath.SkipDir
			}
			return nil
		}
		if fi.Mode().IsRegular() {
			if d, ok := fileSha1(p); ok {
				rel, _ := filepath.Rel(root, p)
				out[hexd(d)] = append(out[hexd(d)], filepath.ToSlash(rel))
			}
		}
		return nil
	})
	return out
}

// heartbeat is the control of the control-relative time scheme: a goroutine
// that sleeps 50 ms at a time and records every gap between its ticks.
type heartbeat struct {
	mu     sync.Mutex
	last   time.Time
	gaps   []hbGap // gaps above 150 ms
	maxGap time.Duration
	stop   chan struct{}
	done   chan struct{}
}

type hbGap struct {
	end time.Time
	gap time.Duration
}

// If dir is not empty every beat also creates, stats and removes a small file there, so that a
// stalled filesystem (journal blocked behind write-back on a busy machine) shows up as a gap
// just like a stalled scheduler does: the code under test needs both to make progress.
func startHeartbeat(dir string) *heartbeat {
	h := &heartbeat{stop: make(chan struct{}), done: make(chan struct{}), last: time.Now()}
	probe := ""
	if dir != "" {
		os.MkdirAll(dir, 0o755)
		probe = filepath.Join(dir, fmt.Sprintf(".verif-heartbeat-%d", os.Getpid()))
	}
	go func() {
		defer close(h.done)
		for {
			select {
			case <-h.stop:
				return
			case <-time.After(50 * time.Millisecond):
			}
			if probe != "" {
				os.WriteFile(probe, []byte("x"), 0o600)
				os.Lstat(probe)
				os.Remove(probe)
			}
			now := time.Now()
			h.mu.Lock()
			gap := now.Sub(h.last)
			h.last = now
			if gap > h.maxGap {
				h.maxGap = gap
			}
			if gap > 150*time.Millisecond {
				h.gaps = append(h.gaps, hbGap{now, gap})
			}
			h.mu.Unlock()
		}
	}()
	return h
}

// maxSince returns the largest heartbeat gap that overlaps the window [t0, now].
func (h *heartbeat) maxSince(t0 time.Time) time.Duration {
	h.mu.Lock()
	defer h.mu.Unlock()
	m := time.Since(h.last)
	for _, g := range h.gaps {
		if !g.end.Before(t0) && g.gap > m {
			m = g.gap
		}
	}
	return m
}

func (h *heartbeat) max() time.Duration {
	h.mu.Lock()
	defer h.mu.Unlock()
	return h.maxGap
}

func (h *heartbeat) close() {
	close(h.stop)
	<-h.done
}

// shmDir returns a scratch directory on tmpfs (a device different from the ext4 scratch).
func shmDir(sub string) (string, error) {
	base := os.Getenv("VERIF_SHM")
	if base == "" {
		base = fmt.Sprintf("/dev/shm/verif-fsfault-%d", os.Getpid())
	}
	d := filepath.Join(base, sub)
	return d, os.MkdirAll(d, 0o755)
}

func newRand(seed int64) *rand.Rand { return rand.New(rand.NewSource(seed)) }

// workQueue is an unbounded job queue served by a fixed number of workers;
// jobs may submit further jobs.
type workQueue struct {
	mu      sync.Mutex
	cond    *sync.Cond
	jobs    []func()
	pending int
	closed  bool
	wg      sync.WaitGroup
}

func newWorkQueue(workers int) *workQueue {
	q := &workQueue{}
	q.cond = sync.NewCond(&q.mu)
	for w := 0; w < workers; w++ {
		q.wg.Add(1)
		go func() {
			defer q.wg.Done()
			for {
				q.mu.Lock()
				for len(q.jobs) == 0 && !q.closed {
					q.cond.Wait()
				}
				if len(q.jobs) == 0 {
					q.mu.Unlock()
					return
				}
				j := q.jobs[0]
				q.jobs = q.jobs[1:]
				q.mu.Unlock()
				j()
				q.mu.Lock()
				q.pending--
				q.cond.Broadcast()
				q.mu.Unlock()
			}
		}()
	}
	return q
}

func (q *workQueue) submit(j func()) {
	q.mu.Lock()
	q.jobs = append(q.jobs, j)
	q.pending++
	q.cond.Broadcast()
	q.mu.Unlock()
}

// wait blocks until every submitted job (including jobs submitted by jobs) has finished.
func (q *workQueue) wait() {
	q.mu.Lock()
	for q.pending > 0 {
		q.cond.Wait()
	}
	q.closed = true
	q.cond.Broadcast()
	q.mu.Unlock()
	q.wg.Wait()
}

// fsxMu serializes the calls into fsx's generators: fsx.UniqueToken keeps a
// process-wide counter that is not safe for concurrent use.
var fsxMu sync.Mutex

// token returns content unique within the process (goroutine-safe wrapper around fsx.UniqueToken).
func token(r *rand.Rand, size int) []byte {
	fsxMu.Lock()
	defer fsxMu.Unlock()
	return fsx.UniqueToken(r, size)
}

// content returns file content of exactly the given size: empty for 0, random
// letters for tiny sizes, a process-unique token (padded) otherwise.
func content(r *rand.Rand, size int) []byte {
	if size <= 0 {
		return []byte{}
	}
	if size < 48 {
		out := make([]byte, size)
		for i := range out {
			out[i] = byte('a' + r.Intn(26))
		}
		return out
	}
	return token(r, size)
}
