// Monitor group fsfault: transition results under injected faults (C09),
// planned content of files written into a root (C10), staging requests and
// entry limits (C41), poll-based watching (C42).
package main

import (
	"os"
	"path/filepath"
	"runtime"
	"strings"

	"verif/internal/vk"
)

// The C09 child brackets the code under test with marker syscalls and is run
// under strace with per-thread syscall ordinals; the main goroutine must stay
// on the main thread for that, so it is pinned before main starts.
func init() {
	runtime.LockOSThread()
}

const roleEnv = "VERIF_FSFAULT_ROLE"

func main() {
	// Child roles (re-exec of the monitor binary).
	switch os.Getenv(roleEnv) {
	case "c09child":
		c09ChildMain()
		return
	}
	ensureDataDirectory()
	vk.Main("fsfault", map[string]func(){
		"C09": c09,
		"C10": c10,
		"C41": c41,
		"C42": c42,
	})
}

// ensureDataDirectory makes sure MUTAGEN_DATA_DIRECTORY points into scratch
// space (the check driver sets it; a by-hand run must not touch ~/.mutagen).
func ensureDataDirectory() {
	d := os.Getenv("MUTAGEN_DATA_DIRECTORY")
	if d != "" && filepath.IsAbs(d) && !strings.HasPrefix(d, "/root/.mutagen") && !strings.HasPrefix(d, "/repo") && !strings.HasPrefix(d, "/verif") {
		return
	}
	s := os.Getenv("VERIF_SCRATCH")
	if s == "" {
		s = filepath.Join("/var/tmp", "verif-fsfault-"+itoa(os.Getpid()))
		os.Setenv("VERIF_SCRATCH", s)
	}
	d = filepath.Join(s, "mutagen-data")
	os.MkdirAll(d, 0o700)
	os.Setenv("MUTAGEN_DATA_DIRECTORY", d)
}
