package main

import (
	"bytes"
	"context"
	"fmt"
	"math/rand"
	"os"
	"path/filepath"
	"sort"
	"strings"
	"sync"
	"time"

	"github.com/mutagen-io/mutagen/pkg/filesystem/behavior"
	"github.com/mutagen-io/mutagen/pkg/synchronization"
	"github.com/mutagen-io/mutagen/pkg/synchronization/core"
	"github.com/mutagen-io/mutagen/pkg/synchronization/rsync"

	"verif/internal/fsx"
	"verif/internal/vk"
)

// diskCount is G3's count of synchronizable entries (root directory included).
func diskCount(root string) (uint64, *core.Entry, error) {
	e, st, err := fsx.Walk(root, fsx.WalkOptions{
		SymbolicLinkMode: core.SymbolicLinkMode_SymbolicLinkModePortable,
		PermissionsMode:  core.PermissionsMode_PermissionsModePortable,
	})
	return st.Directories + st.Files + st.SymbolicLinks, e, err
}

type c41Item struct {
	Path   string `json:"path"`
	Digest string `json:"digest"`
	Type   string `json:"type"` // root-unique | root-duplicate | prestaged | prestaged-other-digest | prestaged-other-path | new | root-gone
	digest []byte
	data   []byte
}

type c41Case struct {
	Index     int        `json:"index"`
	Limit     uint64     `json:"limit"`
	Count     uint64     `json:"count_at_scan"`
	Edits     []string   `json:"edits_between_scan_and_stage"`
	Earlier   bool       `json:"earlier_round"`
	Restart   bool       `json:"restarted_endpoint"`
	StageMode string     `json:"stage_mode"`
	Request   []*c41Item `json:"request"`
}

func c41() {
	r := vk.Start("C41", "exploration")
	base := r.Scratch()
	q := newWorkQueue(8)
	var mu sync.Mutex
	sampled := 0
	nA := r.Pick(140, 6000)
	for i := 0; i < nA; i++ {
		i := i
		q.submit(func() {
			rng := r.Rand(fmt.Sprintf("stage-%d", i))
			dir := filepath.Join(base, fmt.Sprintf("stage-%d", i))
			defer os.RemoveAll(dir)
			c, obs := c41StageCase(r, rng, i, dir)
			mu.Lock()
			if c != nil && obs != nil && sampled < 4 && (len(c.Edits) > 0 || c.Earlier || sampled < 1) {
				sampled++
				r.Sample(map[string]any{"case": c, "observed": obs})
			}
			mu.Unlock()
		})
	}
	nB := r.Pick(120, 3000)
	histSampled := false
	for i := 0; i < nB; i++ {
		i := i
		q.submit(func() {
			rng := r.Rand(fmt.Sprintf("history-%d", i))
			dir := filepath.Join(base, fmt.Sprintf("history-%d", i))
			defer os.RemoveAll(dir)
			h := c41History(r, rng, i, dir)
			mu.Lock()
			if h != nil && !histSampled {
				histSampled = true
				r.Sample(h)
			}
			mu.Unlock()
		})
	}
	hb := startHeartbeat(filepath.Join(base, "heartbeat"))
	nC := r.Pick(8, 120)
	for i := 0; i < nC; i++ {
		i := i
		q.submit(func() {
			rng := r.Rand(fmt.Sprintf("poll-limit-%d", i))
			dir := filepath.Join(base, fmt.Sprintf("poll-limit-%d", i))
			defer os.RemoveAll(dir)
			if s := c41PollLimit(r, rng, i, dir, hb); s != nil {
				r.Sample(s)
			}
		})
	}
	q.wait()
	hb.close()
	r.Assume("(C) with the poll watcher running, 'the poller has rescanned the grown root' is established by a returned Poll followed by a window of 1.3 s without a further signal while the heartbeat control shows no gap >= 1 s; otherwise the case is inconclusive")
	r.Assume("'already staged' is judged by the harness: it delivered exactly that (path, digest) in an earlier round and a file whose name starts with the digest and whose sha1 equals it lies in the staging root; 'exists in the root' is judged by sha1 over the root")
	r.Assume("the converse (content available => path omitted) is asserted only when nothing changed between Scan and Stage; with edits in between only 'omitted => available' is asserted")
	r.Assume("Stage with an empty request returns before any check in the real code and is therefore not expected to be refused; refusal without a preceding Scan is asserted for non-empty requests and for Transition")
	r.Finish("(A) staging cases: roots with duplicate contents, optional earlier round (same or restarted endpoint) leaving staged content, optional renames/copies/edits/deletions between Scan and Stage, request mixing contents available in the root, pre-staged, and new, random entry limit around the scanned count, then supply and Transition; (B) random call histories of scan/stage/transition/edit against a two-flag reference model with entry limit; distinct = (item type, omitted?, quiescent?, limit outcome) and (history op, expected refusal, outcome); (C) force-poll endpoints (1 s) with accelerated scans: Scan within the limit, grow the root past the limit externally, wait for the poller, then Scan must fail and Stage/Transition must be refused", 15)
}

func c41StageCase(r *vk.Run, rng *rand.Rand, index int, dir string) (*c41Case, map[string]any) {
	root := filepath.Join(dir, "beta")
	src := filepath.Join(dir, "alpha")
	os.MkdirAll(src, 0o755)
	c := &c41Case{Index: index}
	fail := func(what string, err error) (*c41Case, map[string]any) {
		r.Inconclusive("harness:" + what)
		fmt.Printf("C41 case %d: harness step failed (%s): %v\n", index, what, err)
		return nil, nil
	}
	// Root with duplicate contents.
	var pool [][]byte
	for k := 0; k < 2+rng.Intn(3); k++ {
		pool = append(pool, token(rng, []int{1, 40, 900, 5000, 70000}[rng.Intn(5)]))
	}
	tree := fsx.Tree{"d": &fsx.Node{Kind: fsx.KDir}}
	var files []string
	for j := 0; j < 3+rng.Intn(8); j++ {
		p := fmt.Sprintf("f%d", j)
		if rng.Intn(3) == 0 {
			p = "d/" + p
		}
		content := pool[rng.Intn(len(pool))]
		if rng.Intn(2) == 0 {
			content = token(rng, 1+rng.Intn(3000))
		}
		tree[p] = &fsx.Node{Kind: fsx.KFile, Content: content, Mode: 0o644}
		files = append(files, p)
	}
	if err := fsx.Materialize(root, tree); err != nil {
		return fail("materialize", err)
	}
	count0, _, err := diskCount(root)
	if err != nil {
		return fail("walk", err)
	}
	cfg := &synchronization.Configuration{WatchMode: synchronization.WatchMode_WatchModeNoWatch}
	switch rng.Intn(3) {
	case 0:
		cfg.StageMode, c.StageMode = synchronization.StageMode_StageModeMutagen, "mutagen"
	case 1:
		cfg.StageMode, c.StageMode = synchronization.StageMode_StageModeNeighboring, "neighboring"
	default:
		cfg.StageMode, c.StageMode = synchronization.StageMode_StageModeInternal, "internal"
	}

	// Request items.
	nItems := 2 + rng.Intn(6)
	c.Earlier = rng.Intn(5) < 2
	c.Restart = c.Earlier && rng.Intn(2) == 0
	edited := rng.Intn(5) < 2
	var items []*c41Item
	var earlier []*c41Item // what the earlier round delivered
	byDigest := map[string][]string{}
	for _, p := range files {
		h := hexd(sha1Of(tree[p].Content))
		byDigest[h] = append(byDigest[h], p)
	}
	for j := 0; j < nItems; j++ {
		p := fmt.Sprintf("q%d", j)
		if rng.Intn(3) == 0 {
			p = "d/" + p
		}
		it := &c41Item{Path: p}
		roll := rng.Intn(10)
		switch {
		case roll < 3: // content of an existing root file
			srcFile := files[rng.Intn(len(files))]
			it.data = tree[srcFile].Content
			it.Type = "root-unique"
			if len(byDigest[hexd(sha1Of(it.data))]) > 1 {
				it.Type = "root-duplicate"
			}
		case roll < 6 && c.Earlier: // something the earlier round staged
			it.data = token(rng, 1+rng.Intn(4000))
			switch rng.Intn(3) {
			case 0:
				it.Type = "prestaged"
				earlier = append(earlier, &c41Item{Path: p, data: it.data})
			case 1:
				it.Type = "prestaged-other-digest"
				earlier = append(earlier, &c41Item{Path: p, data: token(rng, 1+rng.Intn(4000))})
			default:
				it.Type = "prestaged-other-path"
				earlier = append(earlier, &c41Item{Path: p + "-elsewhere", data: it.data})
			}
		default:
			it.data = token(rng, rng.Intn(4000))
			it.Type = "new"
		}
		it.digest = sha1Of(it.data)
		it.Digest = hexd(it.digest)
		items = append(items, it)
	}
	c.Request = items
	// Entries the plan adds: the files plus nothing else (parents exist).
	c.Limit = 0
	if rng.Intn(4) != 0 {
		c.Limit = count0 + uint64(rng.Intn(len(items)+3))
	}
	cfg.MaximumEntryCount = c.Limit
	fmt.Printf("C41 case %d: items=%d limit=%d count=%d earlier=%v restart=%v edited=%v stage=%s\n", index, len(items), c.Limit, count0, c.Earlier, c.Restart, edited, c.StageMode)

	le, err := newLocalEndpoint("C41", root, cfg)
	if err != nil {
		return fail("endpoint", err)
	}
	defer func() { le.shutdown() }()
	writeSrc := func(p string, data []byte) {
		full := filepath.Join(src, filepath.FromSlash(p))
		os.MkdirAll(filepath.Dir(full), 0o755)
		os.WriteFile(full, data, 0o644)
	}
	prestaged := map[string]bool{}
	if c.Earlier && len(earlier) > 0 {
		if _, err, _ := le.ep.Scan(context.Background(), nil, false); err != nil {
			return fail("earlier scan", err)
		}
		var ps []string
		var ds [][]byte
		for _, e := range earlier {
			writeSrc(e.Path, e.data)
			ps = append(ps, e.Path)
			ds = append(ds, sha1Of(e.data))
		}
		filtered, sigs, receiver, err := le.ep.Stage(ps, ds)
		if err != nil {
			// The entry limit may refuse the earlier round; then nothing is pre-staged.
			c.Earlier = false
		} else {
			if receiver != nil {
				if err := rsync.Transmit(src, filtered, sigs, receiver); err != nil {
					return fail("earlier transmit", err)
				}
			}
			for _, e := range earlier {
				prestaged[e.Path+"|"+hexd(sha1Of(e.data))] = true
			}
		}
		if c.Restart {
			le.ep.Shutdown()
			le2, err := newLocalEndpointSession(root, cfg, le.session)
			if err != nil {
				return fail("restart", err)
			}
			le = le2
		}
	}

	// Scan.
	snap, err, _ := le.ep.Scan(context.Background(), nil, false)
	if err != nil {
		return fail("scan", err)
	}
	c.Count = snap.Content.Count()
	if c.Count != count0 {
		return fail("count", fmt.Errorf("scan counts %d entries, walker %d", c.Count, count0))
	}
	rootAtScan := rootDigests(root)

	// Edits between scan and stage.
	if edited {
		for k := 0; k < 1+rng.Intn(3); k++ {
			p := files[rng.Intn(len(files))]
			full := filepath.Join(root, filepath.FromSlash(p))
			if _, err := os.Lstat(full); err != nil {
				continue
			}
			switch rng.Intn(4) {
			case 0:
				os.Rename(full, full+"-renamed")
				c.Edits = append(c.Edits, "rename "+p)
			case 1:
				data, _ := os.ReadFile(full)
				os.WriteFile(full+"-copy", data, 0o644)
				c.Edits = append(c.Edits, "copy "+p)
			case 2:
				os.WriteFile(full, token(rng, 1+rng.Intn(3000)), 0o644)
				fsx.BumpMtime(full)
				c.Edits = append(c.Edits, "modify "+p)
			default:
				os.Remove(full)
				c.Edits = append(c.Edits, "delete "+p)
			}
		}
	}
	rootNow := rootDigests(root)
	stagedBefore, _ := le.stagedDigests()

	var paths []string
	var digests [][]byte
	for _, it := range items {
		paths = append(paths, it.Path)
		digests = append(digests, it.digest)
		writeSrc(it.Path, it.data)
	}
	request := append([]string{}, paths...)
	filtered, sigs, receiver, err := le.ep.Stage(paths, digests)
	r.Eval(1)
	witness := map[string]any{"case": c}
	overLimit := c.Limit != 0 && c.Count+uint64(len(items)) > c.Limit
	if overLimit {
		if err == nil {
			r.Violation(map[string]string{"rule": "stage-past-entry-limit"},
				fmt.Sprintf("Stage accepted %d files with %d entries scanned and a limit of %d", len(items), c.Count, c.Limit), witness)
		} else {
			r.Distinct("stage-refused-by-limit")
			r.Count("stage_refused_by_limit", 1)
		}
		return c, map[string]any{"stage_error": fmt.Sprint(err)}
	}
	if err != nil {
		return fail("stage", err)
	}
	filtered = append([]string{}, filtered...)
	witness["returned"] = filtered
	witness["request"] = request
	if !subsequence(filtered, request) || len(sigs) != len(filtered) || (len(filtered) > 0) != (receiver != nil) {
		r.Violation(map[string]string{"rule": "stage-result-not-subsequence"}, "Stage result is not a subsequence of the request (or signatures/receiver do not match it)", witness)
		return c, nil
	}
	asked := map[string]bool{}
	for _, p := range filtered {
		asked[p] = true
	}
	stagedAfter, mismatching := le.stagedDigests()
	if len(mismatching) > 0 {
		witness["mismatching"] = mismatching
		r.Violation(map[string]string{"rule": "staged-file-at-wrong-address"}, "a staged file's content does not match the digest in its name", witness)
	}
	omittedPerDigest := map[string]int{}
	quiescent := len(c.Edits) == 0
	var outcomes []string
	for _, it := range items {
		omitted := !asked[it.Path]
		inRootNow := len(rootNow[it.Digest]) > 0
		inRootAtScan := len(rootAtScan[it.Digest]) > 0
		samePathStaged := prestaged[it.Path+"|"+it.Digest] && stagedBefore[it.Digest] > 0
		anywhereStaged := stagedBefore[it.Digest] > 0
		w := map[string]any{"case": c, "item": it, "omitted": omitted, "in_root_now": rootNow[it.Digest], "in_root_at_scan": rootAtScan[it.Digest],
			"prestaged_for_this_path": samePathStaged, "staged_files_with_digest_before": stagedBefore[it.Digest], "returned": filtered}
		if omitted {
			omittedPerDigest[it.Digest]++
			if !anywhereStaged && !inRootNow {
				r.Violation(map[string]string{"rule": "omitted-but-content-not-available", "type": it.Type, "quiescent": fmt.Sprint(quiescent)},
					fmt.Sprintf("Stage omitted %q although its content %s is neither staged nor present in the root", it.Path, short(it.digest)), w)
			}
		} else if quiescent && (samePathStaged || inRootAtScan) {
			r.Violation(map[string]string{"rule": "requested-although-available", "type": it.Type},
				fmt.Sprintf("Stage requested %q although its content %s is already staged for this path or present in the root", it.Path, short(it.digest)), w)
		}
		outcomes = append(outcomes, fmt.Sprintf("%s:%s:omitted=%v", it.Path, it.Type, omitted))
		r.Distinct(fmt.Sprintf("item|%s|omitted=%v|quiescent=%v|%s|restart=%v", it.Type, omitted, quiescent, c.StageMode, c.Restart))
		if omitted {
			r.Count("paths_omitted", 1)
		} else {
			r.Count("paths_requested", 1)
		}
	}
	// Every omitted path must really be staged now.
	for d, n := range omittedPerDigest {
		if stagedAfter[d] < n {
			witness["digest"] = d
			r.Violation(map[string]string{"rule": "omitted-but-not-staged-afterwards"},
				fmt.Sprintf("%d path(s) with content %s were omitted but only %d staged file(s) carry it", n, d[:8], stagedAfter[d]), witness)
		}
	}

	// Stage again without a scan: must be refused.
	if _, _, _, err := le.ep.Stage([]string{"again"}, [][]byte{sha1Of([]byte("again"))}); err == nil {
		r.Violation(map[string]string{"rule": "second-stage-without-scan-accepted"}, "a second non-empty Stage without an intervening Scan was accepted", witness)
	} else {
		r.Count("second_stage_refused", 1)
	}

	// Supply and transition.
	if receiver != nil {
		if err := rsync.Transmit(src, filtered, sigs, receiver); err != nil {
			return fail("transmit", err)
		}
	}
	var changes []*core.Change
	for _, it := range items {
		changes = append(changes, &core.Change{Path: it.Path, Old: entryAt(snap.Content, it.Path),
			New: &core.Entry{Kind: core.EntryKind_File, Digest: it.digest}})
	}
	_, before, _ := diskCount(root)
	results, problems, _, err := le.ep.Transition(context.Background(), changes)
	if err != nil {
		return fail("transition", err)
	}
	countAfter, after, _ := diskCount(root)
	if c.Limit != 0 && countAfter > c.Limit && uint64(len(c.Edits)) == 0 {
		r.Violation(map[string]string{"rule": "entry-limit-exceeded-on-disk"},
			fmt.Sprintf("after Transition the root holds %d entries with a limit of %d", countAfter, c.Limit), witness)
	}
	applied := 0
	for i, it := range items {
		res := results[i]
		if res != nil && res.Kind == core.EntryKind_File && bytes.Equal(res.Digest, it.digest) {
			applied++
			if d, ok := fileSha1(filepath.Join(root, filepath.FromSlash(it.Path))); !ok || !bytes.Equal(d, it.digest) {
				r.Violation(map[string]string{"rule": "omitted-path-created-with-other-content", "type": it.Type},
					fmt.Sprintf("%q was reported created with %s but the disk disagrees", it.Path, short(it.digest)), witness)
			}
		}
	}
	if quiescent && applied == len(items) {
		r.Count("rounds_fully_applied", 1)
	}
	_, _ = before, after
	// Transition again without a scan: must be refused.
	if _, _, _, err := le.ep.Transition(context.Background(), nil); err == nil {
		r.Violation(map[string]string{"rule": "second-transition-without-scan-accepted"}, "a second Transition without an intervening Scan was accepted", witness)
	} else {
		r.Count("second_transition_refused", 1)
	}
	var probs []string
	for _, p := range problems {
		probs = append(probs, p.Path+": "+p.Error)
	}
	return c, map[string]any{"returned": filtered, "items": outcomes, "applied": applied, "problems": probs, "count_after": countAfter}
}

// c41History drives a random call history against a small reference model.
func c41History(r *vk.Run, rng *rand.Rand, index int, dir string) map[string]any {
	root := filepath.Join(dir, "beta")
	src := filepath.Join(dir, "alpha")
	os.MkdirAll(src, 0o755)
	tree := fsx.Tree{}
	for j := 0; j < 2+rng.Intn(5); j++ {
		tree[fmt.Sprintf("f%d", j)] = &fsx.Node{Kind: fsx.KFile, Content: token(rng, 1+rng.Intn(500)), Mode: 0o644}
	}
	if err := fsx.Materialize(root, tree); err != nil {
		r.Inconclusive("harness:materialize")
		return nil
	}
	count0, _, _ := diskCount(root)
	limit := count0 + uint64(rng.Intn(4))
	cfg := &synchronization.Configuration{WatchMode: synchronization.WatchMode_WatchModeNoWatch, MaximumEntryCount: limit}
	le, err := newLocalEndpoint("C41", root, cfg)
	if err != nil {
		r.Inconclusive("harness:endpoint")
		return nil
	}
	defer le.shutdown()
	ctx := context.Background()
	// Reference model.
	sinceStage, sinceTransition := false, false
	editedSinceScan := false    // an external edit happened after the last successful Scan
	overLimitScanSince := false // a Scan failed on the entry limit after the last successful Scan
	var lastSnap *core.Snapshot
	var lastScanCount uint64
	type pend struct {
		path string
		data []byte
		dir  bool
	}
	var staged []pend // what the last accepted Stage asked for
	var log []string
	n := 0
	steps := 6 + rng.Intn(8)
	witness := func() map[string]any {
		return map[string]any{"history": log, "limit": limit, "initial_count": count0, "index": index}
	}
	for s := 0; s < steps; s++ {
		switch op := rng.Intn(11); {
		case op < 3: // scan
			snap, err, _ := le.ep.Scan(ctx, nil, rng.Intn(2) == 0)
			cnt, _, _ := diskCount(root)
			if err != nil {
				log = append(log, fmt.Sprintf("scan -> error %v (disk %d)", err, cnt))
				if cnt <= limit {
					r.Inconclusive("history-scan-error")
					return nil
				}
				r.Distinct("history|scan|over-limit-refused")
				overLimitScanSince = true
				continue
			}
			if cnt > limit {
				r.Violation(map[string]string{"rule": "scan-accepted-over-limit"}, fmt.Sprintf("Scan succeeded with %d entries on disk and a limit of %d", cnt, limit), witness())
			}
			sinceStage, sinceTransition, lastSnap, lastScanCount = true, true, snap, snap.Content.Count()
			editedSinceScan, overLimitScanSince = false, false
			log = append(log, fmt.Sprintf("scan -> ok (%d entries)", lastScanCount))
			r.Distinct("history|scan|ok")
		case op < 6: // stage k new files
			k := 1 + rng.Intn(3)
			var ps []string
			var ds [][]byte
			var want []pend
			for j := 0; j < k; j++ {
				n++
				p := fmt.Sprintf("h%d", n)
				data := token(rng, 1+rng.Intn(300))
				full := filepath.Join(src, p)
				os.WriteFile(full, data, 0o644)
				ps = append(ps, p)
				ds = append(ds, sha1Of(data))
				want = append(want, pend{path: p, data: data})
			}
			filtered, sigs, receiver, err := le.ep.Stage(ps, ds)
			mustRefuse := !sinceStage || lastScanCount+uint64(k) > limit
			why := "ok"
			if !sinceStage {
				why = "no-scan"
			} else if lastScanCount+uint64(k) > limit {
				why = "limit"
			}
			log = append(log, fmt.Sprintf("stage %d files -> err=%v (expected refusal: %v, %s)", k, err, mustRefuse, why))
			sinceStage = false
			r.Eval(1)
			if mustRefuse && err == nil {
				r.Violation(map[string]string{"rule": "stage-accepted", "why": why, "after_over_limit_scan": fmt.Sprint(overLimitScanSince)},
					fmt.Sprintf("Stage of %d files was accepted although the history requires refusal (%s; last successful scan counted %d entries, limit %d, a later scan failed on the limit: %v)", k, why, lastScanCount, limit, overLimitScanSince), witness())
			}
			r.Distinct(fmt.Sprintf("history|stage|%s|refused=%v", why, err != nil))
			if err == nil {
				if receiver != nil {
					rsync.Transmit(src, filtered, sigs, receiver)
				}
				staged = want
			}
		case op < 9: // transition: create what was staged (possibly inside a new directory) or delete a file
			var changes []*core.Change
			var base *core.Entry
			if lastSnap != nil {
				base = lastSnap.Content
			}
			added := uint64(0)
			removed := uint64(0)
			if len(staged) > 0 && rng.Intn(4) != 0 {
				if rng.Intn(3) == 0 {
					// wrap the files in a new directory: entries = files + 1 while Stage counted files only
					n++
					dname := fmt.Sprintf("nd%d", n)
					e := &core.Entry{Kind: core.EntryKind_Directory, Contents: map[string]*core.Entry{}}
					for _, p := range staged {
						e.Contents[p.path] = &core.Entry{Kind: core.EntryKind_File, Digest: sha1Of(p.data)}
					}
					changes = append(changes, &core.Change{Path: dname, New: e})
					added = uint64(len(staged)) + 1
					// the staged addresses are for the bare paths; the nested paths will be missing,
					// which is fine for this check (entries are what counts): directories are still created.
				} else {
					for _, p := range staged {
						changes = append(changes, &core.Change{Path: p.path, Old: entryAt(base, p.path), New: &core.Entry{Kind: core.EntryKind_File, Digest: sha1Of(p.data)}})
						if entryAt(base, p.path) == nil {
							added++
						}
					}
				}
			} else if base != nil && len(base.Contents) > 0 {
				names := make([]string, 0, len(base.Contents))
				for name := range base.Contents {
					names = append(names, name)
				}
				sort.Strings(names)
				name := names[rng.Intn(len(names))]
				changes = append(changes, &core.Change{Path: name, Old: base.Contents[name]})
				removed = base.Contents[name].Count()
			}
			cntBefore, viewBefore, _ := diskCount(root)
			results, problems, _, err := le.ep.Transition(ctx, changes)
			cntAfter, viewAfter, _ := diskCount(root)
			mustRefuse := !sinceTransition
			over := sinceTransition && lastScanCount-removed+added > limit
			log = append(log, fmt.Sprintf("transition %v -> err=%v problems=%d disk %d->%d (expected refusal: %v, over limit: %v)", describeChanges(changes), err, len(problems), cntBefore, cntAfter, mustRefuse, over))
			sinceTransition = false
			staged = nil
			r.Eval(1)
			switch {
			case mustRefuse:
				if err == nil {
					r.Violation(map[string]string{"rule": "transition-accepted", "why": "no-scan"}, "Transition was accepted without a preceding Scan", witness())
				}
				r.Distinct(fmt.Sprintf("history|transition|no-scan|refused=%v", err != nil))
			case over:
				same, _ := strictDiff("", viewBefore, viewAfter)
				allOld := err == nil && len(results) == len(changes)
				for i := range results {
					if ok, _ := strictDiff("", results[i], changes[i].Old); !ok {
						allOld = false
					}
				}
				if err != nil || len(problems) == 0 || !same || !allOld {
					w := witness()
					w["disk_unchanged"], w["results_all_old"], w["problems"] = same, allOld, len(problems)
					r.Violation(map[string]string{"rule": "over-limit-transition-not-refused-cleanly"},
						"a transition that would exceed the entry limit must report a problem, return the old entries and change nothing", w)
				}
				r.Distinct("history|transition|over-limit")
				r.Count("over_limit_transitions", 1)
			default:
				if err != nil {
					r.Inconclusive("history-transition-error")
					return nil
				}
				r.Distinct(fmt.Sprintf("history|transition|ok|problems=%v", len(problems) > 0))
			}
			if cntBefore <= limit && cntAfter > limit && !editedSinceScan {
				r.Violation(map[string]string{"rule": "entry-limit-exceeded-on-disk"}, fmt.Sprintf("Transition took the root from %d to %d entries with a limit of %d", cntBefore, cntAfter, limit), witness())
			}
		default: // external edit (may push the root over the limit; then Scan must refuse)
			n++
			p := filepath.Join(root, fmt.Sprintf("ext%d", n))
			os.WriteFile(p, token(rng, 20), 0o644)
			log = append(log, "external create ext"+fmt.Sprint(n))
			editedSinceScan = true
		}
	}
	return map[string]any{"history": log, "limit": limit, "initial_count": count0}
}

func describeChanges(cs []*core.Change) string {
	var parts []string
	for _, c := range cs {
		parts = append(parts, fmt.Sprintf("%s:%s->%s", c.Path, kindName(c.Old), kindName(c.New)))
	}
	return "[" + strings.Join(parts, " ") + "]"
}

// c41PollLimit: the entry limit with the poll watcher running and accelerated scans.
func c41PollLimit(r *vk.Run, rng *rand.Rand, index int, dir string, hb *heartbeat) map[string]any {
	root := filepath.Join(dir, "beta")
	tree := fsx.Tree{}
	for j := 0; j < 2+rng.Intn(5); j++ {
		tree[fmt.Sprintf("f%d", j)] = &fsx.Node{Kind: fsx.KFile, Content: token(rng, 1+rng.Intn(500)), Mode: 0o644}
	}
	if err := fsx.Materialize(root, tree); err != nil {
		r.Inconclusive("harness:materialize")
		return nil
	}
	count0, _, _ := diskCount(root)
	slack := uint64(1 + rng.Intn(3))
	limit := count0 + slack
	grow := int(slack) + 1 + rng.Intn(3)
	cfg := &synchronization.Configuration{
		WatchMode:            synchronization.WatchMode_WatchModeForcePoll,
		WatchPollingInterval: 1,
		ScanMode:             synchronization.ScanMode_ScanModeAccelerated,
		ProbeMode:            behavior.ProbeMode_ProbeModeAssume,
		MaximumEntryCount:    limit,
	}
	fmt.Printf("C41 poll-limit case %d: %d entries, limit %d, growing by %d\n", index, count0, limit, grow)
	le, err := newLocalEndpoint("C41", root, cfg)
	if err != nil {
		r.Inconclusive("harness:endpoint")
		return nil
	}
	defer le.shutdown()
	ctx := context.Background()
	t0 := time.Now()
	if !drain(le.ep) {
		r.Inconclusive("never-quiet")
		return nil
	}
	snap, err, _ := le.ep.Scan(ctx, nil, false)
	if err != nil || snap.Content.Count() != count0 {
		r.Inconclusive("harness:first-scan")
		return nil
	}
	for j := 0; j < grow; j++ {
		os.WriteFile(filepath.Join(root, fmt.Sprintf("grown%d", j)), token(rng, 30), 0o644)
	}
	countNow, _, _ := diskCount(root)
	// Wait until the poller has certainly rescanned the quiescent, grown root.
	signalled, _ := pollOnce(le.ep, c42PollBound)
	quiet := drain(le.ep)
	if gap := hb.maxSince(t0); !signalled || !quiet || gap >= time.Second {
		r.Inconclusive("poller-rescan-not-established")
		return nil
	}
	r.Eval(1)
	witness := map[string]any{"index": index, "initial_count": count0, "limit": limit, "count_after_growth": countNow}
	outcome := "scan-refused"
	snap2, err, _ := le.ep.Scan(ctx, nil, false)
	if err == nil {
		outcome = "scan-accepted"
		witness["snapshot_entries"] = snap2.Content.Count()
		if snap2.Content.Count() > limit {
			r.Violation(map[string]string{"rule": "scan-returned-over-limit-snapshot", "watch": "poll"},
				fmt.Sprintf("with the poll watcher running, Scan returned a snapshot of %d entries although the limit is %d", snap2.Content.Count(), limit), witness)
		} else {
			// A stale but within-limit snapshot is allowed by acceleration; the case says nothing then.
			r.Inconclusive("scan-returned-stale-snapshot")
			return nil
		}
	}
	// Stage of one further path must be refused (the stale count would admit it: count0+1 <= limit).
	data := token(rng, 100)
	if _, _, _, err := le.ep.Stage([]string{"further"}, [][]byte{sha1Of(data)}); err == nil {
		outcome += "|stage-accepted"
		r.Violation(map[string]string{"rule": "stage-accepted", "why": "limit", "watch": "poll"},
			fmt.Sprintf("with %d entries on disk (poller rescanned) and a limit of %d, Stage of a further path was accepted", countNow, limit), witness)
	} else {
		outcome += "|stage-refused"
	}
	// A transition adding a directory must change nothing.
	_, before, _ := diskCount(root)
	results, problems, _, err := le.ep.Transition(ctx, []*core.Change{{Path: "furtherdir", New: &core.Entry{Kind: core.EntryKind_Directory}}})
	cntAfter, after, _ := diskCount(root)
	same, _ := strictDiff("", before, after)
	if err == nil && (!same || len(problems) == 0 || len(results) != 1 || results[0] != nil) {
		outcome += "|transition-applied"
		witness["count_after_transition"] = cntAfter
		r.Violation(map[string]string{"rule": "over-limit-transition-not-refused-cleanly", "watch": "poll"},
			fmt.Sprintf("with %d entries on disk (poller rescanned) and a limit of %d, a transition creating a directory was not refused cleanly (disk unchanged: %v, problems: %d)", countNow, limit, same, len(problems)), witness)
	} else {
		outcome += "|transition-refused"
	}
	r.Distinct(fmt.Sprintf("poll-limit|slack=%d|%s", slack, outcome))
	r.Count("poll_limit_cases_judged", 1)
	witness["outcome"] = outcome
	return witness
}
