package main

import (
	"bytes"
	"context"
	"fmt"
	"math/rand"
	"os"
	"os/signal"
	"path/filepath"
	"sort"
	"strings"
	"sync"
	"syscall"
	"time"

	"google.golang.org/protobuf/proto"

	"github.com/mutagen-io/mutagen/pkg/synchronization"
	"github.com/mutagen-io/mutagen/pkg/synchronization/core"
	"github.com/mutagen-io/mutagen/pkg/synchronization/rsync"

	"verif/internal/fsx"
	"verif/internal/vk"
)

// c10File is one planned file.
type c10File struct {
	Path    string `json:"path"`
	Change  int    `json:"change"` // index of the covering change
	Kind    string `json:"kind"`   // create | swap | nested | copy
	Feed    string `json:"feed"`   // good | wrong | truncated | longer | emptied | source-missing
	old     []byte
	planned []byte
	exec    bool
	Size    int    `json:"size"`
	CopyOf  string `json:"copy_of,omitempty"`
	CopyMod bool   `json:"copy_source_modified,omitempty"`
}

type c10Case struct {
	Index       int    `json:"index"`
	Stream      string `json:"stream"` // transmit | drop | dup | flip | drop-done | abort | none
	K           int    `json:"k"`
	StageMode   string `json:"stage_mode"`
	CrossDevice bool   `json:"root_on_other_device_than_staging"`
	Earlier     bool   `json:"earlier_interrupted_round"`
	// Abandoned: the earlier round's receiver was dropped after a few operations (no finalize),
	// leaving a partial temporary of a LARGE earlier version of a file in the staging root.
	Abandoned    bool       `json:"earlier_receiver_abandoned_mid_file"`
	SizeLimit    uint64     `json:"maximum_staging_file_size"`
	LimitVariant string     `json:"limit_variant,omitempty"` // last-op | earlier | at | above (relative to LimitFile)
	LimitFile    string     `json:"limit_file,omitempty"`
	Files        []*c10File `json:"files"`
}

func c10Size(r *rand.Rand) int {
	switch r.Intn(10) {
	case 0:
		return 0
	case 1:
		return 1 + r.Intn(30)
	case 2, 3:
		return 60000 + r.Intn(140000)
	case 4:
		return []int{1024, 2048, 8192, 65536}[r.Intn(4)] - 1 + r.Intn(3)
	default:
		return 100 + r.Intn(6000)
	}
}

// c10Edit derives new content from old content so that rsync finds common blocks.
func c10Edit(r *rand.Rand, old []byte) []byte {
	tok := token(r, 40+r.Intn(3000))
	if len(old) == 0 {
		return tok
	}
	at := r.Intn(len(old))
	out := append([]byte{}, old[:at]...)
	out = append(out, tok...)
	switch r.Intn(3) {
	case 0: // insertion
		out = append(out, old[at:]...)
	case 1: // replacement
		skip := at + len(tok)
		if skip < len(old) {
			out = append(out, old[skip:]...)
		}
	default: // truncating edit
	}
	return out
}

func c10() {
	r := vk.Start("C10", "exploration")
	cases := r.Pick(400, 10000)
	base := r.Scratch()
	q := newWorkQueue(8)
	var mu sync.Mutex
	sampled := 0
	for i := 0; i < cases; i++ {
		i := i
		q.submit(func() {
			rng := r.Rand(fmt.Sprintf("case-%d", i))
			dir := filepath.Join(base, fmt.Sprintf("case-%d", i))
			defer os.RemoveAll(dir)
			c, obs := c10RunCase(r, rng, i, dir)
			if c == nil {
				return
			}
			mu.Lock()
			if sampled < 5 && obs != nil && (c.Stream != "transmit" || sampled < 2) {
				sampled++
				r.Sample(map[string]any{"case": c, "observed": obs})
			}
			mu.Unlock()
		})
	}
	q.wait()
	c10LargeCancel(r)
	c10CopyIOError(r)
	r.Assume("the harness plays the peer: it calls Scan, Stage, feeds the returned receiver (real rsync.Transmit from a source root, or a recorded stream replayed through rsync.DecodeToReceiver with tampering/abort), then Transition, on a real local endpoint (beta) over a real root")
	r.Assume("'bad staged data' is asserted only where the harness knows the delivered bytes differ from the plan (source changed after the plan, source missing, nothing sent, files after an abort point); for tampered streams only 'claimed => digest matches' and 'no foreign content' are asserted")
	r.Finish("random roots and plans (creates, swaps derived by edits so that block operations occur, nested creations, copies of existing root files) x feed mode per file x stream mode per case (+ an interrupted earlier round leaving staged content, junk in the staging root); distinct = (stream mode, feed, change kind, size class, outcome)", 30)
}

func sizeClass(n int) string {
	switch {
	case n == 0:
		return "0"
	case n < 1024:
		return "<1K"
	case n < 65536:
		return "<64K"
	}
	return ">=64K"
}

// c10RunCase runs one case; it returns the case and a short observation for samples.
func c10RunCase(r *vk.Run, rng *rand.Rand, index int, dir string) (*c10Case, map[string]any) {
	root := filepath.Join(dir, "beta")
	src := filepath.Join(dir, "alpha")
	c := &c10Case{Index: index}
	// Every fourth case keeps the root on tmpfs while the staging root lives in the data
	// directory on ext4: moving staged files into place then really crosses devices and
	// takes the copy-through-temporary path of core.Transition.
	if index%4 == 3 {
		if d, err := shmDir(fmt.Sprintf("C10-case-%d", index)); err == nil {
			defer os.RemoveAll(d)
			root = filepath.Join(d, "beta")
			c.CrossDevice = true
		}
	}
	fail := func(what string, err error) (*c10Case, map[string]any) {
		r.Inconclusive("harness:" + what)
		fmt.Printf("C10 case %d: harness step failed (%s): %v\n", index, what, err)
		return nil, nil
	}

	// Root content.
	tree := fsx.Tree{}
	nBase := 2 + rng.Intn(6)
	var baseFiles []string
	for j := 0; j < nBase; j++ {
		p := fmt.Sprintf("b%d", j)
		if rng.Intn(3) == 0 {
			p = "d/" + p
		}
		tree[p] = &fsx.Node{Kind: fsx.KFile, Content: content(rng, c10Size(rng)), Mode: []os.FileMode{0o644, 0o755}[rng.Intn(2)]}
		baseFiles = append(baseFiles, p)
	}
	tree["d"] = &fsx.Node{Kind: fsx.KDir}
	if err := fsx.Materialize(root, tree); err != nil {
		return fail("materialize", err)
	}
	os.MkdirAll(src, 0o755)

	// Plan.
	type planChange struct {
		path  string
		files []*c10File // files of this change (path relative to root)
		dir   bool
	}
	var plan []*planChange
	feeds := []string{"good", "good", "good", "wrong", "truncated", "longer", "emptied", "source-missing"}
	newFile := func(path, kind string, old []byte) *c10File {
		f := &c10File{Path: path, Kind: kind, Feed: feeds[rng.Intn(len(feeds))], old: old, exec: rng.Intn(3) == 0}
		if old != nil {
			f.planned = c10Edit(rng, old)
		} else {
			f.planned = content(rng, c10Size(rng))
		}
		return f
	}
	usedSwap := map[string]bool{}
	nChanges := 1 + rng.Intn(5)
	for j := 0; j < nChanges; j++ {
		switch rng.Intn(6) {
		case 0, 1: // create
			p := fmt.Sprintf("n%d", j)
			if rng.Intn(2) == 0 {
				p = "d/" + p
			}
			plan = append(plan, &planChange{path: p, files: []*c10File{newFile(p, "create", nil)}})
		case 2, 3: // swap
			p := baseFiles[rng.Intn(len(baseFiles))]
			if usedSwap[p] {
				continue
			}
			usedSwap[p] = true
			plan = append(plan, &planChange{path: p, files: []*c10File{newFile(p, "swap", tree[p].Content)}})
		case 4: // nested creation
			p := fmt.Sprintf("nd%d", j)
			pc := &planChange{path: p, dir: true}
			for k := 0; k < 1+rng.Intn(3); k++ {
				sub := fmt.Sprintf("%s/f%d", p, k)
				if rng.Intn(3) == 0 {
					sub = fmt.Sprintf("%s/s/f%d", p, k)
				}
				pc.files = append(pc.files, newFile(sub, "nested", nil))
			}
			plan = append(plan, pc)
		default: // copy of an existing root file (served by the reverse lookup)
			srcPath := baseFiles[rng.Intn(len(baseFiles))]
			if usedSwap[srcPath] || len(tree[srcPath].Content) == 0 {
				continue
			}
			usedSwap[srcPath] = true // keep the copy source out of the swaps
			p := fmt.Sprintf("cp%d", j)
			f := &c10File{Path: p, Kind: "copy", Feed: "good", planned: append([]byte{}, tree[srcPath].Content...), CopyOf: srcPath, CopyMod: rng.Intn(2) == 0}
			plan = append(plan, &planChange{path: p, files: []*c10File{f}})
		}
	}
	if len(plan) == 0 {
		p := "n-only"
		plan = append(plan, &planChange{path: p, files: []*c10File{newFile(p, "create", nil)}})
	}
	for ci, pc := range plan {
		for _, f := range pc.files {
			f.Change = ci
			f.Size = len(f.planned)
			c.Files = append(c.Files, f)
		}
	}

	// Case-level choices.
	streams := []string{"transmit", "transmit", "transmit", "drop", "dup", "flip", "drop-done", "abort", "abort", "none"}
	c.Stream = streams[rng.Intn(len(streams))]
	if c.Stream != "transmit" && c.Stream != "none" && rng.Intn(10) < 6 {
		// Isolate the effect of tampering/aborting: the source itself stays as planned.
		for _, f := range c.Files {
			f.Feed = "good"
		}
	}
	cfg := &synchronization.Configuration{WatchMode: synchronization.WatchMode_WatchModeNoWatch}
	switch rng.Intn(3) {
	case 0:
		cfg.StageMode, c.StageMode = synchronization.StageMode_StageModeMutagen, "mutagen"
	case 1:
		cfg.StageMode, c.StageMode = synchronization.StageMode_StageModeNeighboring, "neighboring"
	default:
		cfg.StageMode, c.StageMode = synchronization.StageMode_StageModeInternal, "internal"
	}
	if c.CrossDevice {
		cfg.StageMode, c.StageMode = synchronization.StageMode_StageModeMutagen, "mutagen"
	}
	c.Earlier = rng.Intn(3) == 0
	c.Abandoned = c.Earlier && rng.Intn(2) == 0
	// A maximum staging file size placed relative to one planned file: just below its size so
	// that only its last rsync operation crosses the limit, far below, exactly at, or above.
	if rng.Intn(4) == 0 {
		var cands []*c10File
		for _, f := range c.Files {
			if f.Size > 0 {
				cands = append(cands, f)
			}
		}
		if len(cands) > 0 {
			f := cands[rng.Intn(len(cands))]
			size := uint64(f.Size)
			lastOp := size % 65536
			if lastOp == 0 {
				lastOp = 65536
			}
			c.LimitFile = f.Path
			c.LimitVariant = []string{"last-op", "last-op", "earlier", "at", "above"}[rng.Intn(5)]
			switch c.LimitVariant {
			case "last-op":
				c.SizeLimit = size - 1 - uint64(rng.Int63n(int64(lastOp)))
			case "earlier":
				c.SizeLimit = uint64(rng.Int63n(int64(size-lastOp) + 1))
			case "at":
				c.SizeLimit = size
			case "above":
				c.SizeLimit = size + 1 + uint64(rng.Intn(100))
			}
			if c.SizeLimit == 0 {
				c.SizeLimit = 1
			}
			cfg.MaximumStagingFileSize = c.SizeLimit
		}
	}
	fmt.Printf("C10 case %d: stream=%s stage=%s earlier=%v files=%d\n", index, c.Stream, c.StageMode, c.Earlier, len(c.Files))

	le, err := newLocalEndpoint("C10", root, cfg)
	if err != nil {
		return fail("endpoint", err)
	}
	defer func() { le.shutdown() }()
	ctx := context.Background()

	writeSource := func(f *c10File, content []byte) error {
		full := filepath.Join(src, filepath.FromSlash(f.Path))
		os.MkdirAll(filepath.Dir(full), 0o755)
		return os.WriteFile(full, content, 0o644)
	}

	// An earlier, interrupted round run by an earlier endpoint instance of the same
	// session: an older version of the plan is staged completely (same paths, other
	// digests) and never transitioned; the instance goes away, junk is left in the
	// staging root, and a new instance takes over.
	if c.Earlier {
		if _, err := scanEndpoint(le.ep, false); err != nil {
			return fail("earlier scan", err)
		}
		var paths []string
		var digests [][]byte
		for _, f := range c.Files {
			if f.Kind == "copy" {
				continue
			}
			v0 := token(rng, 10+rng.Intn(5000))
			if c.Abandoned {
				v0 = token(rng, 150000+rng.Intn(250000))
			}
			writeSource(f, v0)
			paths = append(paths, f.Path)
			digests = append(digests, sha1Of(v0))
		}
		if len(paths) > 0 {
			filtered, sigs, receiver, err := le.ep.Stage(paths, digests)
			if err != nil {
				return fail("earlier stage", err)
			}
			if receiver != nil && c.Abandoned {
				// The transfer dies after a few operations: the receiver is never finalized.
				msgs, err := recordStream(src, filtered, sigs)
				if err != nil || len(msgs) < 2 {
					return fail("earlier record", err)
				}
				stop := 1 + rng.Intn(len(msgs)-1)
				for _, m := range msgs[:stop] {
					if err := receiver.Receive(m); err != nil {
						break
					}
				}
				r.Count("earlier_receivers_abandoned", 1)
			} else if receiver != nil {
				if err := rsync.Transmit(src, filtered, sigs, receiver); err != nil {
					return fail("earlier transmit", err)
				}
			}
		}
		le.ep.Shutdown()
		// Junk: a partial temporary storage file and a stray file in a prefix directory.
		os.MkdirAll(filepath.Join(le.stagingRoot, "ab"), 0o700)
		os.WriteFile(filepath.Join(le.stagingRoot, "storage123456789"), []byte("partial"), 0o600)
		os.WriteFile(filepath.Join(le.stagingRoot, "ab", strings.Repeat("ab", 36)), []byte("stray"), 0o600)
		le2, err := newLocalEndpointSession(root, cfg, le.session)
		if err != nil {
			return fail("restart endpoint", err)
		}
		le = le2
		r.Count("earlier_interrupted_rounds", 1)
	}

	// The round under test. The plan is made from this scan.
	snap, err := scanEndpoint(le.ep, false)
	if err != nil {
		return fail("scan", err)
	}
	for _, f := range c.Files {
		if err := writeSource(f, f.planned); err != nil {
			return fail("source", err)
		}
	}
	var changes []*core.Change
	for _, pc := range plan {
		ch := &core.Change{Path: pc.path, Old: entryAt(snap.Content, pc.path)}
		if pc.dir {
			top := &core.Entry{Kind: core.EntryKind_Directory, Contents: map[string]*core.Entry{}}
			for _, f := range pc.files {
				rel := strings.Split(strings.TrimPrefix(f.Path, pc.path+"/"), "/")
				cur := top
				for _, comp := range rel[:len(rel)-1] {
					next, ok := cur.Contents[comp]
					if !ok {
						next = &core.Entry{Kind: core.EntryKind_Directory, Contents: map[string]*core.Entry{}}
						cur.Contents[comp] = next
					}
					cur = next
				}
				cur.Contents[rel[len(rel)-1]] = &core.Entry{Kind: core.EntryKind_File, Digest: sha1Of(f.planned), Executable: f.exec}
			}
			ch.New = top
		} else {
			f := pc.files[0]
			ch.New = &core.Entry{Kind: core.EntryKind_File, Digest: sha1Of(f.planned), Executable: f.exec}
		}
		changes = append(changes, ch)
	}
	paths, digests := core.TransitionDependencies(changes)

	// Things change after the plan was made.
	for _, f := range c.Files {
		full := filepath.Join(src, filepath.FromSlash(f.Path))
		switch f.Feed {
		case "wrong":
			if len(f.planned) == 0 {
				f.Feed = "longer"
				os.WriteFile(full, []byte("x"), 0o644)
				break
			}
			w := append([]byte{}, f.planned...)
			w[rng.Intn(len(w))] ^= 0x20
			if len(w) > 70000 { // also damage the tail of big files
				w[len(w)-1] ^= 0x01
			}
			os.WriteFile(full, w, 0o644)
		case "truncated":
			if len(f.planned) == 0 {
				f.Feed = "longer"
				os.WriteFile(full, []byte("x"), 0o644)
				break
			}
			os.WriteFile(full, f.planned[:rng.Intn(len(f.planned))], 0o644)
		case "longer":
			os.WriteFile(full, append(append([]byte{}, f.planned...), token(rng, 1+rng.Intn(100))...), 0o644)
		case "emptied":
			if len(f.planned) == 0 {
				f.Feed = "longer"
				os.WriteFile(full, []byte("x"), 0o644)
				break
			}
			os.WriteFile(full, nil, 0o644)
		case "source-missing":
			os.Remove(full)
			if len(f.planned) == 0 {
				// A missing source yields an empty staged file (the receiver sinks an
				// empty file on a bare "done"), which IS the planned content here.
				f.Feed = "good"
			}
		}
		if f.Kind == "copy" && f.CopyMod {
			// The local copy source is modified between scan and stage.
			cs := filepath.Join(root, filepath.FromSlash(f.CopyOf))
			os.WriteFile(cs, token(rng, len(f.planned)), 0o644)
			fsx.BumpMtime(cs)
		}
	}
	// Root digests as they are now (old content of swaps; after the copy-source modification).
	oldDigest := map[string]string{}
	for _, f := range c.Files {
		if d, ok := fileSha1(filepath.Join(root, filepath.FromSlash(f.Path))); ok {
			oldDigest[f.Path] = hexd(d)
		}
	}

	filtered, sigs, receiver, err := le.ep.Stage(paths, digests)
	if err != nil {
		return fail("stage", err)
	}
	if !subsequence(filtered, paths) || len(sigs) != len(filtered) {
		r.Violation(map[string]string{"rule": "stage-result-not-subsequence"}, "Stage returned paths that are not a subsequence of the request", map[string]any{"case": c, "request": paths, "returned": filtered})
	}
	requested := map[string]int{}
	for i, p := range filtered {
		requested[p] = i
	}

	// Feed the receiver.
	abortFile := -1
	if receiver != nil {
		switch c.Stream {
		case "transmit":
			if err := rsync.Transmit(src, filtered, sigs, receiver); err != nil {
				return fail("transmit", err)
			}
		case "none":
			replayStream(nil, 0, len(filtered), receiver)
			abortFile = 0
		default:
			msgs, err := recordStream(src, filtered, sigs)
			if err != nil {
				return fail("record", err)
			}
			fileOf := fileIndexOfMessage(msgs)
			var ops, dones []int
			for i, m := range msgs {
				if m.Done {
					dones = append(dones, i)
				} else {
					ops = append(ops, i)
				}
			}
			failAt := -1
			switch c.Stream {
			case "abort":
				failAt = rng.Intn(len(msgs) + 1)
				c.K = failAt
				if failAt < len(msgs) {
					abortFile = fileOf[failAt]
				} else {
					abortFile = len(filtered)
				}
			case "drop-done":
				k := dones[rng.Intn(len(dones))]
				c.K = k
				msgs = append(append([]*rsync.Transmission{}, msgs[:k]...), msgs[k+1:]...)
			default:
				if len(ops) == 0 {
					c.Stream = "transmit-no-ops"
					break
				}
				k := ops[rng.Intn(len(ops))]
				c.K = k
				switch c.Stream {
				case "drop":
					msgs = append(append([]*rsync.Transmission{}, msgs[:k]...), msgs[k+1:]...)
				case "dup":
					dup := proto.Clone(msgs[k]).(*rsync.Transmission)
					dup.ExpectedSize = 0
					msgs = append(append(append([]*rsync.Transmission{}, msgs[:k+1]...), dup), msgs[k+1:]...)
				case "flip":
					m := proto.Clone(msgs[k]).(*rsync.Transmission)
					if len(m.Operation.Data) > 0 {
						m.Operation.Data[rng.Intn(len(m.Operation.Data))] ^= 0x01
					} else if rng.Intn(2) == 0 {
						m.Operation.Start++
					} else {
						m.Operation.Count++
					}
					msgs[k] = m
				}
			}
			replayStream(msgs, failAt, len(filtered), receiver)
		}
	}

	results, problems, missing, err := le.ep.Transition(ctx, changes)
	if err != nil {
		return fail("transition", err)
	}
	if len(results) != len(changes) {
		r.Violation(map[string]string{"rule": "result-count"}, "Transition returned a different number of results than changes", map[string]any{"case": c})
		return c, nil
	}
	r.Eval(1)

	// Judge every planned file.
	var probs []string
	for _, p := range problems {
		probs = append(probs, p.Path+": "+p.Error)
	}
	obs := map[string]any{"requested": filtered, "problems": probs, "missing": missing}
	anyBad := false
	outcome := map[string]string{}
	for _, f := range c.Files {
		d := sha1Of(f.planned)
		pc := plan[f.Change]
		var res *core.Entry
		if f.Path == pc.path {
			res = results[f.Change]
		} else {
			res = entryAt(results[f.Change], strings.TrimPrefix(f.Path, pc.path+"/"))
		}
		claim := res != nil && res.Kind == core.EntryKind_File && bytes.Equal(res.Digest, d)
		disk, onDisk := fileSha1(filepath.Join(root, filepath.FromSlash(f.Path)))
		_, wasRequested := requested[f.Path]
		witness := map[string]any{"case": c, "file": f, "planned_digest": hexd(d), "result": describe(res), "disk_digest": hexd(disk), "on_disk": onDisk,
			"requested_from_peer": wasRequested, "problems": probs, "missing_files": missing, "old_digest": oldDigest[f.Path]}
		sigBase := map[string]string{"stream": c.Stream, "feed": f.Feed, "kind": f.Kind}
		sig := func(rule string) map[string]string {
			m := map[string]string{"rule": rule}
			for k, v := range sigBase {
				m[k] = v
			}
			return m
		}
		// (1) a result claiming the planned file must be backed by the planned content.
		if claim && (!onDisk || !bytes.Equal(disk, d)) {
			r.Violation(sig("claimed-planned-file-has-other-content"),
				fmt.Sprintf("result at %q claims the planned file %s but the disk holds %s", f.Path, short(d), hexd(disk)), witness)
		}
		// (2) whatever is on disk at a planned path is the old content or the planned content.
		if onDisk && !bytes.Equal(disk, d) && hexd(disk) != oldDigest[f.Path] {
			r.Violation(sig("foreign-content-in-root"),
				fmt.Sprintf("file at %q has content %s which is neither the planned %s nor the previous content", f.Path, short(disk), short(d)), witness)
		}
		// (3) data known to be bad must not be applied and must be reported as missing.
		knownBad := false
		if wasRequested {
			switch {
			case c.Stream == "transmit" && f.Feed != "good":
				// With a staging size limit the store commits the prefix of the delivered data
				// that fitted; for a source that grew ("longer" = planned content + more) that
				// prefix can be exactly the planned content, so nothing is known then.
				knownBad = !(c.SizeLimit != 0 && f.Feed == "longer")
			case c.Stream == "none":
				knownBad = true
			case c.Stream == "abort" && requested[f.Path] > abortFile:
				knownBad = true
			case c.Stream == "abort" && requested[f.Path] < abortFile && f.Feed != "good":
				knownBad = !(c.SizeLimit != 0 && f.Feed == "longer")
			}
		}
		overSize := c.SizeLimit != 0 && uint64(f.Size) > c.SizeLimit
		if overSize && wasRequested && (c.Stream == "transmit" || c.Stream == "transmit-no-ops") && f.Feed == "good" {
			// The planned content itself cannot be staged: the store must refuse it.
			knownBad = true
			sigBase["feed"] = "over-size-limit"
			r.Count("files_over_the_staging_size_limit", 1)
		}
		knownGood := (c.Stream == "transmit" || c.Stream == "transmit-no-ops" || !wasRequested) && f.Feed == "good" && !overSize
		if knownBad {
			anyBad = true
			if claim {
				r.Violation(sig("bad-data-applied"), fmt.Sprintf("the data delivered for %q was not the planned content, yet the result claims the planned file", f.Path), witness)
			}
			if f.Kind == "swap" && (!onDisk || hexd(disk) != oldDigest[f.Path]) {
				r.Violation(sig("old-content-lost"), fmt.Sprintf("the data delivered for %q was bad and the old content is no longer there", f.Path), witness)
			}
			if f.Kind != "swap" && onDisk {
				r.Violation(sig("bad-data-applied"), fmt.Sprintf("the data delivered for %q was bad but a file was created", f.Path), witness)
			}
			if !missing {
				r.Violation(sig("missing-files-not-reported"), fmt.Sprintf("the data delivered for %q was bad but Transition did not report missing files", f.Path), witness)
			}
		}
		o := "not-applied"
		if claim {
			o = "applied"
		}
		if knownBad {
			o = "bad:" + o
			r.Count("files_known_bad_checked", 1)
		} else if knownGood {
			if claim && onDisk && bytes.Equal(disk, d) {
				r.Count("files_good_applied_and_verified", 1)
			} else {
				r.Count("files_good_not_applied", 1)
				o = "good:not-applied"
				fmt.Printf("C10 case %d: good file %q was not applied: result %s problems %v\n", index, f.Path, describe(res), probs)
			}
		} else {
			o = "tampered:" + o
			r.Count("files_tampered_stream_checked", 1)
		}
		if !wasRequested {
			o += ":local"
			r.Count("files_served_locally", 1)
		}
		outcome[f.Path] = o
		lim := ""
		if c.SizeLimit != 0 {
			lim = "limit:" + c.LimitVariant
			if f.Path == c.LimitFile {
				lim += ":this-file"
			}
			if overSize {
				lim += ":over"
			}
		}
		r.Distinct(strings.Join([]string{c.Stream, f.Feed, f.Kind, sizeClass(f.Size), o, fmt.Sprint(c.CrossDevice), lim, fmt.Sprint(c.Abandoned)}, "|"))
		if c.CrossDevice && claim {
			r.Count("files_applied_across_devices", 1)
		}
	}
	_ = anyBad
	// Nothing may be left in the staging root after Transition (it is wiped by Finalize) — not
	// asserted (housekeeping is C43), only recorded.
	if _, err := os.Lstat(le.stagingRoot); err == nil {
		r.Count("staging_root_left_after_transition", 1)
	}
	keys := make([]string, 0, len(outcome))
	for k := range outcome {
		keys = append(keys, k+"="+outcome[k])
	}
	sort.Strings(keys)
	obs["outcomes"] = keys
	return c, obs
}

// c10LargeCancel cancels Transition while a large staged file (> 2 x 32 MiB) is being
// copied across devices into the root: the root must never hold a file at that path whose
// digest is neither the old nor the planned one, and the result must not claim the planned
// file unless the disk holds it. The cancellation is timed (a few delays are tried); the
// verdict does not depend on when it lands, only the non-triviality count does.
func c10LargeCancel(r *vk.Run) {
	const size = 72 << 20
	rng := r.Rand("large-cancel")
	delays := []int{3, 12, 30, 60}
	if !r.Quick() {
		delays = []int{1, 3, 6, 12, 20, 30, 45, 60, 90, 120, 150, 200}
	}
	planned := make([]byte, size)
	for i, delay := range delays {
		copy(planned, token(rng, 64))
		digest := sha1Of(planned)
		swap := i%2 == 1
		fmt.Printf("C10 large cross-device copy cancelled after %d ms (swap=%v)\n", delay, swap)
		shm, err := shmDir(fmt.Sprintf("C10-large-%d", i))
		if err != nil {
			r.Inconclusive("harness:shm")
			return
		}
		dir := filepath.Join(r.Scratch(), fmt.Sprintf("large-%d", i))
		root, src := filepath.Join(shm, "beta"), filepath.Join(dir, "alpha")
		func() {
			defer os.RemoveAll(shm)
			defer os.RemoveAll(dir)
			os.MkdirAll(root, 0o755)
			os.MkdirAll(src, 0o755)
			os.WriteFile(filepath.Join(root, "other"), []byte("other"), 0o644)
			var oldDigest []byte
			if swap {
				old := token(rng, 5000)
				os.WriteFile(filepath.Join(root, "big"), old, 0o644)
				oldDigest = sha1Of(old)
			}
			if err := os.WriteFile(filepath.Join(src, "big"), planned, 0o644); err != nil {
				r.Inconclusive("harness:source")
				return
			}
			le, err := newLocalEndpoint("C10", root, &synchronization.Configuration{WatchMode: synchronization.WatchMode_WatchModeNoWatch})
			if err != nil {
				r.Inconclusive("harness:endpoint")
				return
			}
			defer le.shutdown()
			snap, err := scanEndpoint(le.ep, false)
			if err != nil {
				r.Inconclusive("harness:scan")
				return
			}
			changes := []*core.Change{{Path: "big", Old: entryAt(snap.Content, "big"), New: &core.Entry{Kind: core.EntryKind_File, Digest: digest}}}
			filtered, sigs, receiver, err := le.ep.Stage([]string{"big"}, [][]byte{digest})
			if err != nil || receiver == nil {
				r.Inconclusive("harness:stage")
				return
			}
			if err := rsync.Transmit(src, filtered, sigs, receiver); err != nil {
				r.Inconclusive("harness:transmit")
				return
			}
			ctx, cancel := context.WithCancel(context.Background())
			defer cancel()
			timer := time.AfterFunc(time.Duration(delay)*time.Millisecond, cancel)
			defer timer.Stop()
			results, problems, _, err := le.ep.Transition(ctx, changes)
			if err != nil || len(results) != 1 {
				r.Inconclusive("harness:transition")
				return
			}
			r.Eval(1)
			res := results[0]
			claim := res != nil && res.Kind == core.EntryKind_File && bytes.Equal(res.Digest, digest)
			disk, onDisk := fileSha1(filepath.Join(root, "big"))
			preempted := false
			var probs []string
			for _, p := range problems {
				probs = append(probs, p.Path+": "+p.Error)
				// "unable to create/swap file: transition cancelled" = preempted inside the copy;
				// a bare "transition cancelled" = cancelled before the change was started.
				if strings.Contains(p.Error, "file: transition cancelled") {
					preempted = true
				}
			}
			witness := map[string]any{"delay_ms": delay, "swap": swap, "size": size, "result": describe(res), "planned": hexd(digest), "disk": hexd(disk), "on_disk": onDisk, "problems": probs}
			sig := map[string]string{"stream": "large-cancel", "kind": map[bool]string{true: "swap", false: "create"}[swap]}
			if claim && (!onDisk || !bytes.Equal(disk, digest)) {
				sig["rule"] = "claimed-planned-file-has-other-content"
				r.Violation(sig, fmt.Sprintf("a cancelled cross-device copy of a %d MiB file: the result claims the planned file %s but the disk holds %s", size>>20, short(digest), hexd(disk)), witness)
			} else if onDisk && !bytes.Equal(disk, digest) && !bytes.Equal(disk, oldDigest) {
				sig["rule"] = "foreign-content-in-root"
				r.Violation(sig, fmt.Sprintf("a cancelled cross-device copy of a %d MiB file left content %s in the root (planned %s)", size>>20, short(disk), short(digest)), witness)
			}
			if temps := temporaries(root); len(temps) > 0 {
				r.Count("large_cancel_temporaries_left", int64(len(temps)))
			}
			outcome := "completed"
			if preempted && !claim {
				outcome = "preempted"
				r.Count("large_copies_preempted", 1)
			} else if !claim {
				outcome = "not-applied"
			}
			r.Distinct(fmt.Sprintf("large-cancel|swap=%v|%s", swap, outcome))
		}()
	}
}

// c10CopyIOError makes the cross-device copy of Transition hit a genuine I/O error part-way
// (not a cancellation): RLIMIT_FSIZE is lowered around Transition only, so the write that
// would take the temporary in the root past the limit fails with EFBIG (SIGXFSZ is ignored).
// The partial temporary must not end up at the planned path. The limit is process-wide,
// hence these cases run alone, after every other case has finished, and nothing is printed
// while the limit is in force.
func c10CopyIOError(r *vk.Run) {
	const size = 24 << 20
	rng := r.Rand("copy-io-error")
	n := r.Pick(4, 16)
	signal.Ignore(syscall.SIGXFSZ)
	planned := make([]byte, size)
	for i := 0; i < n; i++ {
		copy(planned, token(rng, 64))
		digest := sha1Of(planned)
		swap := i%2 == 1
		limit := uint64(9<<20 + rng.Intn(12<<20))
		fmt.Printf("C10 cross-device copy with RLIMIT_FSIZE=%d around Transition (swap=%v)\n", limit, swap)
		shm, err := shmDir(fmt.Sprintf("C10-fsize-%d", i))
		if err != nil {
			r.Inconclusive("harness:shm")
			return
		}
		dir := filepath.Join(r.Scratch(), fmt.Sprintf("fsize-%d", i))
		root, src := filepath.Join(shm, "beta"), filepath.Join(dir, "alpha")
		func() {
			defer os.RemoveAll(shm)
			defer os.RemoveAll(dir)
			os.MkdirAll(root, 0o755)
			os.MkdirAll(src, 0o755)
			var oldDigest []byte
			if swap {
				old := token(rng, 5000)
				os.WriteFile(filepath.Join(root, "big"), old, 0o644)
				oldDigest = sha1Of(old)
			}
			if err := os.WriteFile(filepath.Join(src, "big"), planned, 0o644); err != nil {
				r.Inconclusive("harness:source")
				return
			}
			le, err := newLocalEndpoint("C10", root, &synchronization.Configuration{WatchMode: synchronization.WatchMode_WatchModeNoWatch})
			if err != nil {
				r.Inconclusive("harness:endpoint")
				return
			}
			defer le.shutdown()
			snap, err := scanEndpoint(le.ep, false)
			if err != nil {
				r.Inconclusive("harness:scan")
				return
			}
			changes := []*core.Change{{Path: "big", Old: entryAt(snap.Content, "big"), New: &core.Entry{Kind: core.EntryKind_File, Digest: digest}}}
			filtered, sigs, receiver, err := le.ep.Stage([]string{"big"}, [][]byte{digest})
			if err != nil || receiver == nil {
				r.Inconclusive("harness:stage")
				return
			}
			if err := rsync.Transmit(src, filtered, sigs, receiver); err != nil {
				r.Inconclusive("harness:transmit")
				return
			}
			var saved syscall.Rlimit
			if err := syscall.Getrlimit(syscall.RLIMIT_FSIZE, &saved); err != nil {
				r.Inconclusive("harness:getrlimit")
				return
			}
			if err := syscall.Setrlimit(syscall.RLIMIT_FSIZE, &syscall.Rlimit{Cur: limit, Max: saved.Max}); err != nil {
				r.Inconclusive("harness:setrlimit")
				return
			}
			results, problems, missing, terr := le.ep.Transition(context.Background(), changes)
			syscall.Setrlimit(syscall.RLIMIT_FSIZE, &saved)
			if terr != nil || len(results) != 1 {
				r.Inconclusive("harness:transition")
				return
			}
			r.Eval(1)
			res := results[0]
			claim := res != nil && res.Kind == core.EntryKind_File && bytes.Equal(res.Digest, digest)
			disk, onDisk := fileSha1(filepath.Join(root, "big"))
			var probs []string
			failedInCopy := false
			for _, p := range problems {
				probs = append(probs, p.Path+": "+p.Error)
				if strings.Contains(p.Error, "unable to copy file contents") {
					failedInCopy = true
				}
			}
			witness := map[string]any{"rlimit_fsize": limit, "swap": swap, "size": size, "result": describe(res), "planned": hexd(digest), "disk": hexd(disk), "on_disk": onDisk, "problems": probs, "missing_files": missing}
			sig := map[string]string{"stream": "copy-io-error", "kind": map[bool]string{true: "swap", false: "create"}[swap]}
			if claim && (!onDisk || !bytes.Equal(disk, digest)) {
				sig["rule"] = "claimed-planned-file-has-other-content"
				r.Violation(sig, fmt.Sprintf("the cross-device copy of a %d MiB file failed part-way (EFBIG at %d bytes): the result claims the planned file %s but the disk holds %s", size>>20, limit, short(digest), hexd(disk)), witness)
			} else if onDisk && !bytes.Equal(disk, digest) && !bytes.Equal(disk, oldDigest) {
				sig["rule"] = "foreign-content-in-root"
				r.Violation(sig, fmt.Sprintf("the cross-device copy of a %d MiB file failed part-way (EFBIG at %d bytes) and left content %s in the root (planned %s)", size>>20, limit, short(disk), short(digest)), witness)
			}
			outcome := "applied"
			if failedInCopy && !claim {
				outcome = "copy-failed-cleanly"
				r.Count("cross_device_copies_failed_mid_copy", 1)
			} else if !claim {
				outcome = "not-applied"
			}
			r.Distinct(fmt.Sprintf("copy-io-error|swap=%v|%s", swap, outcome))
		}()
	}
}
