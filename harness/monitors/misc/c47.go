package main

import (
	"bytes"
	"crypto/sha1"
	"errors"
	"fmt"
	"io"
	"math/rand"
	"runtime"
	"strings"
	"sync"
	"sync/atomic"

	"github.com/mutagen-io/mutagen/pkg/stream"

	"verif/internal/vk"
)

var errDownstream = errors.New("scripted downstream failure")

// scriptedWriter is the downstream: per call it accepts everything, accepts a
// strict prefix and reports an error (short write), or fails outright. It
// records what it was offered and what it accepted.
type scriptedWriter struct {
	rng      *rand.Rand
	failRate int // per mille of calls that do not fully succeed
	calls    int
	offered  [][]byte
	accepted []byte
	lastN    int
	lastErr  error
}

func (s *scriptedWriter) Write(p []byte) (int, error) {
	s.calls++
	s.offered = append(s.offered, append([]byte{}, p...))
	n, err := len(p), error(nil)
	if s.failRate > 0 && s.rng.Intn(1000) < s.failRate {
		if len(p) > 1 && s.rng.Intn(2) == 0 {
			n = s.rng.Intn(len(p)) // short write
		} else {
			n = 0
		}
		err = errDownstream
	}
	s.accepted = append(s.accepted, p[:n]...)
	s.lastN, s.lastErr = n, err
	return n, err
}

func randomChunks(rng *rand.Rand, alphabet string, maxChunks, maxLen int) [][]byte {
	chunks := make([][]byte, rng.Intn(maxChunks+1))
	for i := range chunks {
		c := make([]byte, rng.Intn(maxLen+1))
		for j := range c {
			c[j] = alphabet[rng.Intn(len(alphabet))]
		}
		chunks[i] = c
	}
	return chunks
}

func chunksText(chunks [][]byte) []string {
	out := make([]string, len(chunks))
	for i, c := range chunks {
		out[i] = fmt.Sprintf("%q", c)
	}
	return out
}

type c47ctx struct {
	r       *vk.Run
	col     *collector
	mu      sync.Mutex
	seen    map[string]struct{}
	sampled map[string]bool
}

// sample keeps the first non-trivial case of each helper for the evidence file.
func (c *c47ctx) sample(helper string, v func() map[string]any) {
	c.mu.Lock()
	defer c.mu.Unlock()
	if !c.sampled[helper] {
		c.sampled[helper] = true
		m := v()
		m["helper"] = helper
		c.r.Sample(m)
	}
}

func (c *c47ctx) distinct(s string) {
	c.mu.Lock()
	c.seen[s] = struct{}{}
	c.mu.Unlock()
}

func (c *c47ctx) fail(helper, rule string, idx int, size int, what string, w map[string]any) {
	w["helper"] = helper
	w["case"] = idx
	c.col.add(map[string]string{"helper": helper, "rule": rule}, size, fmt.Sprintf("%09d", idx), helper+": "+what, w)
}

// --- cutoff writer ---------------------------------------------------------
// Contract (NewCutoffWriter): forwards writes until the maximum number of
// bytes has been written; writing any further bytes succeeds without reaching
// the underlying writer.
func (c *c47ctx) cutoff(idx int, rng *rand.Rand) {
	limit := uint(rng.Intn(40))
	down := &scriptedWriter{rng: rng, failRate: []int{0, 0, 150, 400}[rng.Intn(4)]}
	w := stream.NewCutoffWriter(down, limit)
	chunks := randomChunks(rng, "abcdefgh", 12, 16)
	wit := func() map[string]any {
		return map[string]any{"cutoff": limit, "writes": chunksText(chunks), "downstream_offered": chunksText(down.offered), "downstream_accepted": string(down.accepted)}
	}
	size := len(chunks)
	var logical []byte // bytes the caller was told were written, in order
	faults := 0
	for i, ch := range chunks {
		// A conforming caller: on a short count it continues with the rest.
		for attempt := 0; ; attempt++ {
			callsBefore, accBefore := down.calls, len(down.accepted)
			n, err := w.Write(ch)
			if n < 0 || n > len(ch) {
				c.fail("cutoff", "count-out-of-range", idx, size, fmt.Sprintf("write %d returned n=%d for %d bytes", i, n, len(ch)), wit())
				return
			}
			remainingBefore := int(limit) - accBefore
			if remainingBefore <= 0 {
				if down.calls != callsBefore {
					c.fail("cutoff", "downstream-called-after-cutoff", idx, size, fmt.Sprintf("write %d reached downstream although %d bytes had already been forwarded", i, accBefore), wit())
					return
				}
				if n != len(ch) || err != nil {
					c.fail("cutoff", "late-bytes-not-reported-written", idx, size, fmt.Sprintf("write %d after the cutoff returned (%d, %v), want (%d, nil)", i, n, err, len(ch)), wit())
					return
				}
			} else if down.calls != callsBefore {
				if down.lastErr != nil {
					faults++
					if n != down.lastN || err == nil {
						c.fail("cutoff", "downstream-error-not-passed", idx, size, fmt.Sprintf("downstream returned (%d, %v), cutoff writer returned (%d, %v)", down.lastN, down.lastErr, n, err), wit())
						return
					}
				} else if n != len(ch) || err != nil {
					c.fail("cutoff", "success-not-reported", idx, size, fmt.Sprintf("write %d: downstream accepted its part but the writer returned (%d, %v)", i, n, err), wit())
					return
				}
			} else if len(ch) > 0 {
				c.fail("cutoff", "bytes-withheld-before-cutoff", idx, size, fmt.Sprintf("write %d did not reach downstream although only %d of %d bytes had been forwarded", i, accBefore, limit), wit())
				return
			}
			logical = append(logical, ch[:n]...)
			if len(down.accepted) > int(limit) {
				c.fail("cutoff", "forwarded-more-than-cutoff", idx, size, fmt.Sprintf("downstream accepted %d bytes, cutoff is %d", len(down.accepted), limit), wit())
				return
			}
			ch = ch[n:]
			if err == nil || attempt > 50 {
				break
			}
		}
	}
	want := logical
	if len(want) > int(limit) {
		want = want[:limit]
	}
	if !bytes.Equal(down.accepted, want) {
		c.fail("cutoff", "downstream-not-the-first-N-bytes", idx, size, fmt.Sprintf("downstream holds %q, the first %d bytes reported written are %q", down.accepted, limit, want), wit())
		return
	}
	c.r.Eval(1)
	if len(logical) > int(limit) {
		c.distinct(fmt.Sprintf("cutoff|beyond|faults=%v", faults > 0))
		c.r.Count("cutoff_cases_beyond_limit", 1)
		if faults > 0 {
			c.sample("cutoff", wit)
		}
	}
}

// --- hashed writer -----------------------------------------------------------
// Contract (NewHashedWriter): the hash processes all bytes that are
// successfully written to the associated writer.
func (c *c47ctx) hashed(idx int, rng *rand.Rand) {
	down := &scriptedWriter{rng: rng, failRate: []int{0, 200, 500}[rng.Intn(3)]}
	h := sha1.New()
	w := stream.NewHashedWriter(down, h)
	chunks := randomChunks(rng, "abcdefgh", 12, 24)
	short := 0
	for i, ch := range chunks {
		n, err := w.Write(ch)
		if n != down.lastN || (err == nil) != (down.lastErr == nil) {
			c.fail("hashed", "result-not-passed", idx, len(chunks), fmt.Sprintf("write %d: downstream returned (%d, %v), hashed writer (%d, %v)", i, down.lastN, down.lastErr, n, err),
				map[string]any{"writes": chunksText(chunks)})
			return
		}
		if err != nil {
			short++
		}
	}
	want := sha1.Sum(down.accepted)
	if got := h.Sum(nil); !bytes.Equal(got, want[:]) {
		all := sha1.Sum(bytes.Join(chunks, nil))
		c.fail("hashed", "digest-differs-from-accepted-bytes", idx, len(chunks),
			fmt.Sprintf("digest %x, hash of the %d bytes downstream accepted %x (hash of everything offered: %x)", got, len(down.accepted), want, all),
			map[string]any{"writes": chunksText(chunks), "downstream_accepted": string(down.accepted)})
		return
	}
	c.r.Eval(1)
	if short > 0 {
		c.distinct(fmt.Sprintf("hashed|short=%d", short))
	}
}

// --- line processor -----------------------------------------------------------
// Contract (LineProcessor): splits on '\n' or '\r\n' (split characters
// removed); MaximumBufferSize: writes exceeding it without a newline raise
// ErrMaximumBufferSizeExceeded; 0 = default (64 KiB), negative = no limit.
func (c *c47ctx) lines(idx int, rng *rand.Rand) {
	var got []string
	p := &stream.LineProcessor{Callback: func(s string) { got = append(got, s) }}
	limit := 0
	switch rng.Intn(4) {
	case 0:
		limit = 1 + rng.Intn(24)
		p.MaximumBufferSize = limit
	case 1:
		p.MaximumBufferSize = -1
	}
	chunks := randomChunks(rng, "ab\n\n\r\rc ", 14, 12)
	if p.MaximumBufferSize <= 0 && rng.Intn(40) == 0 {
		// Exercise the default limit: one fragment that crosses 64 KiB without a newline.
		big := bytes.Repeat([]byte{'x'}, 64*1024-rng.Intn(3))
		chunks = append([][]byte{big}, chunks...)
	}
	effective := limit
	if p.MaximumBufferSize == 0 {
		effective = 64 * 1024
	}
	wit := func() map[string]any {
		return map[string]any{"maximum_buffer_size": p.MaximumBufferSize, "writes": chunksText(chunks), "callbacks": fmt.Sprintf("%q", got), "caller_reuses_one_buffer": idx%3 != 0}
	}
	var pending []byte
	var want []string
	overflows := 0
	// Two thirds of the cases feed the writer the way io.Copy does: every chunk
	// is copied into ONE reused buffer, which is overwritten with different
	// bytes as soon as Write has returned (io.Writer forbids retaining it).
	reuse := idx%3 != 0
	var shared []byte
	if reuse {
		longest := 0
		for _, ch := range chunks {
			longest = max(longest, len(ch))
		}
		shared = make([]byte, longest)
	}
	midline := 0
	for i, ch := range chunks {
		if len(pending) == 0 && len(ch) > 0 && ch[len(ch)-1] != '\n' {
			midline++ // the chunk ends inside a line while the processor holds nothing
		}
		var n int
		var err error
		if reuse {
			view := shared[:len(ch)]
			copy(view, ch)
			n, err = p.Write(view)
			for j := range shared {
				shared[j] = "\nZ\r#"[j%4]
			}
		} else {
			n, err = p.Write(ch)
		}
		if effective > 0 && len(pending)+len(ch) > effective {
			overflows++
			if !errors.Is(err, stream.ErrMaximumBufferSizeExceeded) {
				c.fail("line-processor", "overflow-not-reported", idx, len(chunks), fmt.Sprintf("write %d makes %d unterminated bytes (limit %d) but returned (%d, %v)", i, len(pending)+len(ch), effective, n, err), wit())
				return
			}
			if n != 0 {
				c.fail("line-processor", "overflow-count", idx, len(chunks), fmt.Sprintf("write %d failed with the overflow error but reports %d bytes written", i, n), wit())
				return
			}
			continue // nothing of a rejected write is consumed
		}
		if err != nil || n != len(ch) {
			c.fail("line-processor", "write-result", idx, len(chunks), fmt.Sprintf("write %d of %d bytes within the limit returned (%d, %v)", i, len(ch), n, err), wit())
			return
		}
		pending = append(pending, ch...)
		for {
			j := bytes.IndexByte(pending, '\n')
			if j < 0 {
				break
			}
			line := pending[:j]
			if len(line) > 0 && line[len(line)-1] == '\r' {
				line = line[:len(line)-1]
			}
			want = append(want, string(line))
			pending = pending[j+1:]
		}
		if len(got) != len(want) || (len(want) > 0 && got[len(got)-1] != want[len(want)-1]) {
			break
		}
	}
	if fmt.Sprintf("%q", got) != fmt.Sprintf("%q", want) {
		rule := "lines-differ"
		for i := range want {
			if i < len(got) && got[i] != want[i] && strings.TrimSuffix(got[i], "\r") == want[i] {
				rule = "carriage-return-not-trimmed"
			}
		}
		w := wit()
		w["expected_callbacks"] = fmt.Sprintf("%q", want)
		c.fail("line-processor", rule, idx, len(chunks), fmt.Sprintf("callbacks %q, input split at \\n with one trailing \\r trimmed gives %q", got, want), w)
		return
	}
	c.r.Eval(1)
	if len(want) > 0 {
		crlf := false
		for _, ch := range chunks {
			if bytes.Contains(ch, []byte("\r\n")) {
				crlf = true
			}
		}
		c.distinct(fmt.Sprintf("lines|limit=%v|overflow=%v|crlf=%v|n=%d|reused=%v", effective > 0 && effective < 1000, overflows > 0, crlf, min(len(want), 6), reuse))
		if reuse && midline > 0 {
			c.r.Count("line_processor_reused_buffer_cases_with_midline_chunk_on_empty_processor", 1)
		}
		if crlf && overflows > 0 && len(want) > 2 {
			c.sample("line-processor", wit)
		}
	}
}

// --- preemptable writer --------------------------------------------------------
// Contract (NewPreemptableWriter): interval = maximum number of Write calls
// processed between cancellation checks; 0 = check before every write.
func (c *c47ctx) preemptable(idx int, rng *rand.Rand) {
	interval := uint(rng.Intn(6))
	cancelled := make(chan struct{})
	down := &scriptedWriter{rng: rng, failRate: []int{0, 0, 100}[rng.Intn(3)]}
	w := stream.NewPreemptableWriter(down, cancelled, interval)
	total := 1 + rng.Intn(30)
	cancelAt := rng.Intn(total + 3) // may lie beyond the last write: never cancelled
	after := 0                      // downstream calls made by writes that started after the cancellation
	preemptedAt := -1
	var trace []string
	for i := 0; i < total; i++ {
		if i == cancelAt {
			close(cancelled)
			trace = append(trace, "cancel")
		}
		before := down.calls
		data := []byte(fmt.Sprintf("w%d", i))
		n, err := w.Write(data)
		reached := down.calls != before
		trace = append(trace, fmt.Sprintf("write%d->(%d,%v)", i, n, err))
		if i < cancelAt {
			if !reached {
				c.fail("preemptable", "write-dropped-before-cancellation", idx, total, fmt.Sprintf("write %d did not reach downstream although nothing was cancelled", i), map[string]any{"interval": interval, "trace": trace})
				return
			}
			if n != down.lastN || (err == nil) != (down.lastErr == nil) {
				c.fail("preemptable", "result-not-passed", idx, total, fmt.Sprintf("write %d: downstream (%d,%v), writer (%d,%v)", i, down.lastN, down.lastErr, n, err), map[string]any{"interval": interval, "trace": trace})
				return
			}
			continue
		}
		if reached {
			after++
			if preemptedAt >= 0 {
				c.fail("preemptable", "write-after-preemption-reported", idx, total, fmt.Sprintf("write %d reached downstream after write %d had already returned ErrWritePreempted", i, preemptedAt), map[string]any{"interval": interval, "trace": trace})
				return
			}
		} else {
			if !errors.Is(err, stream.ErrWritePreempted) || n != 0 {
				c.fail("preemptable", "preempted-write-result", idx, total, fmt.Sprintf("write %d did not reach downstream but returned (%d, %v)", i, n, err), map[string]any{"interval": interval, "trace": trace})
				return
			}
			if preemptedAt < 0 {
				preemptedAt = i
			}
		}
		if after > int(interval) {
			c.fail("preemptable", "too-many-writes-after-cancellation", idx, total, fmt.Sprintf("%d writes reached downstream after cancellation, check interval is %d", after, interval), map[string]any{"interval": interval, "cancel_before_write": cancelAt, "trace": trace})
			return
		}
	}
	c.r.Eval(1)
	if cancelAt < total {
		c.distinct(fmt.Sprintf("preempt|interval=%d|after=%d|phase=%d", interval, after, cancelAt%int(interval+1)))
	}
}

// --- valve writer -----------------------------------------------------------------
// Contract (ValveWriter): forwards until shut; afterwards writes continue to
// succeed but are not written to the underlying writer; a nil writer = pre-shut.
func (c *c47ctx) valve(idx int, rng *rand.Rand) {
	down := &scriptedWriter{rng: rng, failRate: []int{0, 150}[rng.Intn(2)]}
	var v *stream.ValveWriter
	preShut := rng.Intn(10) == 0
	if preShut {
		v = stream.NewValveWriter(nil)
	} else {
		v = stream.NewValveWriter(down)
	}
	total := 1 + rng.Intn(20)
	shutAt := rng.Intn(total + 2)
	shut := preShut
	for i := 0; i < total; i++ {
		if i == shutAt {
			v.Shut()
			if rng.Intn(3) == 0 {
				v.Shut() // shutting twice must be harmless
			}
			shut = true
		}
		before := down.calls
		data := []byte(fmt.Sprintf("v%d", i))
		n, err := v.Write(data)
		reached := down.calls != before
		w := map[string]any{"shut_before_write": shutAt, "pre_shut": preShut, "write": i}
		if shut {
			if reached {
				c.fail("valve", "write-reached-downstream-after-shut", idx, total, fmt.Sprintf("write %d reached the underlying writer after Shut", i), w)
				return
			}
			if n != len(data) || err != nil {
				c.fail("valve", "write-after-shut-not-successful", idx, total, fmt.Sprintf("write %d after Shut returned (%d, %v)", i, n, err), w)
				return
			}
		} else {
			if !reached {
				c.fail("valve", "write-dropped-while-open", idx, total, fmt.Sprintf("write %d did not reach the underlying writer while the valve was open", i), w)
				return
			}
			if n != down.lastN || (err == nil) != (down.lastErr == nil) {
				c.fail("valve", "result-not-passed", idx, total, fmt.Sprintf("write %d: downstream (%d,%v), valve (%d,%v)", i, down.lastN, down.lastErr, n, err), w)
				return
			}
		}
	}
	c.r.Eval(1)
	if shutAt < total {
		c.distinct(fmt.Sprintf("valve|shut=%d|pre=%v", min(shutAt, 5), preShut))
	}
}

// --- multi closer ------------------------------------------------------------------
// Contract (NewMultiCloser): closers are closed in the order specified; all are
// closed; only the first error encountered is returned.
type scriptedCloser struct {
	id    int
	err   error
	log   *[]int
	count int
}

func (s *scriptedCloser) Close() error {
	s.count++
	*s.log = append(*s.log, s.id)
	return s.err
}

func (c *c47ctx) multiCloser(idx int, rng *rand.Rand) {
	n := rng.Intn(7)
	var log []int
	closers := make([]io.Closer, n)
	scripted := make([]*scriptedCloser, n)
	var first error
	var plan []string
	for i := range closers {
		s := &scriptedCloser{id: i, log: &log}
		if rng.Intn(3) == 0 {
			s.err = fmt.Errorf("close error %d", i)
			if first == nil {
				first = s.err
			}
		}
		plan = append(plan, fmt.Sprint(s.err))
		closers[i], scripted[i] = s, s
	}
	err := stream.NewMultiCloser(closers...).Close()
	w := map[string]any{"closer_results": plan, "close_order": fmt.Sprint(log), "returned": fmt.Sprint(err)}
	for i, s := range scripted {
		if s.count != 1 {
			c.fail("multi-closer", "closer-not-closed-exactly-once", idx, n, fmt.Sprintf("closer %d of %d was closed %d times", i, n, s.count), w)
			return
		}
		if log[i] != i {
			c.fail("multi-closer", "close-order", idx, n, fmt.Sprintf("closers were closed in order %v", log), w)
			return
		}
	}
	if err != first {
		c.fail("multi-closer", "first-error-not-returned", idx, n, fmt.Sprintf("Close returned %v, the first error encountered is %v", err, first), w)
		return
	}
	c.r.Eval(1)
	nerr := 0
	for _, s := range scripted {
		if s.err != nil {
			nerr++
		}
	}
	if nerr > 0 {
		c.distinct(fmt.Sprintf("closer|n=%d|errors=%d", n, nerr))
	}
}

// --- concurrent variants (meaningful under -race) -------------------------------------

// exclusiveWriter detects overlapping Write calls: by an in-flight counter
// (decides here) and by unsynchronized state (lets the race detector see it).
type exclusiveWriter struct {
	inFlight  atomic.Int32
	overlaps  atomic.Int32
	plain     int // deliberately unsynchronized: only safe if the wrapper serializes
	bytes     int
	shutDone  *atomic.Bool
	afterShut atomic.Int32
}

func (e *exclusiveWriter) Write(p []byte) (int, error) {
	if e.shutDone != nil && e.shutDone.Load() {
		e.afterShut.Add(1)
	}
	if e.inFlight.Add(1) > 1 {
		e.overlaps.Add(1)
	}
	e.plain++
	e.bytes += len(p)
	if e.plain%64 == 0 { // widen the window now and then
		runtime.Gosched()
	}
	e.inFlight.Add(-1)
	return len(p), nil
}

func (c *c47ctx) concurrent(round int) {
	const goroutines, per = 8, 400
	// Concurrent writer: calls on the underlying writer are serialized.
	{
		down := &exclusiveWriter{}
		w := stream.NewConcurrentWriter(down)
		var wg sync.WaitGroup
		var bad atomic.Int32
		for g := 0; g < goroutines; g++ {
			wg.Add(1)
			go func(g int) {
				defer wg.Done()
				buf := []byte(fmt.Sprintf("g%d-data", g))
				for k := 0; k < per; k++ {
					if n, err := w.Write(buf); n != len(buf) || err != nil {
						bad.Add(1)
					}
				}
			}(g)
		}
		wg.Wait()
		c.r.Eval(goroutines * per)
		if down.overlaps.Load() > 0 || down.plain != goroutines*per {
			c.r.Violation(map[string]string{"helper": "concurrent-writer", "rule": "writes-overlapped"}, fmt.Sprintf("concurrent writer: %d overlapping downstream writes, %d of %d calls counted", down.overlaps.Load(), down.plain, goroutines*per), map[string]any{"round": round})
		}
		if bad.Load() > 0 {
			c.r.Violation(map[string]string{"helper": "concurrent-writer", "rule": "result-not-passed"}, fmt.Sprintf("concurrent writer: %d writes did not report full success", bad.Load()), map[string]any{"round": round})
		}
		c.distinct(fmt.Sprintf("concurrent-writer|%d", round%4))
	}
	// Valve: writers race with Shut. Once Shut has returned no write may start on the underlying writer; callers always see success.
	{
		var shutDone atomic.Bool
		down := &exclusiveWriter{shutDone: &shutDone}
		v := stream.NewValveWriter(down)
		var wg sync.WaitGroup
		var bad atomic.Int32
		var started sync.WaitGroup
		started.Add(goroutines)
		for g := 0; g < goroutines; g++ {
			wg.Add(1)
			go func(g int) {
				defer wg.Done()
				buf := []byte(fmt.Sprintf("g%d", g))
				started.Done()
				for k := 0; k < per; k++ {
					if n, err := v.Write(buf); n != len(buf) || err != nil {
						bad.Add(1)
					}
				}
			}(g)
		}
		started.Wait()
		for i := 0; i < (round%7)*3; i++ { // vary the point of the shut a little
			runtime.Gosched()
		}
		v.Shut()
		shutDone.Store(true)
		wg.Wait()
		c.r.Eval(goroutines * per)
		if down.afterShut.Load() > 0 {
			c.r.Violation(map[string]string{"helper": "valve", "rule": "write-reached-downstream-after-shut", "route": "concurrent"}, fmt.Sprintf("valve: %d writes started on the underlying writer after Shut had returned", down.afterShut.Load()), map[string]any{"round": round})
		}
		if down.overlaps.Load() > 0 {
			c.r.Violation(map[string]string{"helper": "valve", "rule": "writes-overlapped", "route": "concurrent"}, fmt.Sprintf("valve: %d overlapping downstream writes", down.overlaps.Load()), map[string]any{"round": round})
		}
		if bad.Load() > 0 {
			c.r.Violation(map[string]string{"helper": "valve", "rule": "write-not-successful", "route": "concurrent"}, fmt.Sprintf("valve: %d writes did not report success", bad.Load()), map[string]any{"round": round})
		}
		c.r.Count("valve_concurrent_writes_forwarded", int64(down.plain))
		c.r.Count("valve_concurrent_writes_discarded", int64(goroutines*per-down.plain))
		c.distinct(fmt.Sprintf("valve-concurrent|%d", round%4))
	}
	// Preemptable writer cancelled from another goroutine: of the writes that
	// start after the cancellation is complete at most `interval` reach downstream.
	{
		interval := uint(round % 5)
		cancelled := make(chan struct{})
		var cancelDone atomic.Bool
		down := &exclusiveWriter{}
		w := stream.NewPreemptableWriter(down, cancelled, interval)
		done := make(chan struct{})
		after := 0
		go func() {
			defer close(done)
			for k := 0; k < 4000; k++ {
				startedAfter := cancelDone.Load()
				before := down.plain
				w.Write([]byte("x"))
				if startedAfter && down.plain != before {
					after++
				}
			}
		}()
		for i := 0; i < (round%5)*3; i++ {
			runtime.Gosched()
		}
		close(cancelled)
		cancelDone.Store(true)
		<-done
		c.r.Eval(1)
		if after > int(interval) {
			c.r.Violation(map[string]string{"helper": "preemptable", "rule": "too-many-writes-after-cancellation", "route": "concurrent"}, fmt.Sprintf("preemptable writer: %d writes that started after cancellation reached downstream, interval %d", after, interval), map[string]any{"round": round, "interval": interval})
		}
		c.distinct(fmt.Sprintf("preempt-concurrent|%d", interval))
	}
}

func c47() {
	r := vk.Start("C47", "exploration")
	c := &c47ctx{r: r, col: newCollector(), seen: map[string]struct{}{}, sampled: map[string]bool{}}
	n := r.Pick(12000, 250000)
	helpers := []struct {
		name string
		f    func(int, *rand.Rand)
	}{{"cutoff", c.cutoff}, {"hashed", c.hashed}, {"lines", c.lines}, {"preemptable", c.preemptable}, {"valve", c.valve}, {"closer", c.multiCloser}}
	var wg sync.WaitGroup
	for w := 0; w < workers; w++ {
		wg.Add(1)
		go func(w int) {
			defer wg.Done()
			for idx := w; idx < n; idx += workers {
				for _, h := range helpers {
					rng := r.Rand(fmt.Sprintf("%s-%d", h.name, idx))
					r.Guard(map[string]any{"helper": h.name, "case": idx}, func() { h.f(idx, rng) })
				}
			}
		}(w)
	}
	wg.Wait()
	c.col.flush(r)
	rounds := r.Pick(30, 200)
	for round := 0; round < rounds; round++ {
		r.Guard(map[string]any{"concurrent_round": round}, func() { c.concurrent(round) })
	}
	r.Count("concurrent_rounds", int64(rounds))
	for k := range c.seen {
		r.Distinct(k)
	}
	r.Assume("the scripted downstream obeys io.Writer: it returns n < len only together with an error; callers of the cutoff writer continue with the unwritten rest after a short count")
	r.Assume("concurrent variants decide on logical order only (atomic flags set after Shut / close returned); data races are reported separately by the race detector")
	r.Finish("seeded random write sequences against each helper of pkg/stream with a scripted downstream (accept / short write with error / fail): cutoff writer (downstream holds exactly the first N bytes reported written, nothing reaches it afterwards, later bytes reported written), hashed writer (digest = hash of accepted bytes), line processor (callbacks = input split at \\n with one \\r trimmed for any fragmentation, two thirds of the cases fed io.Copy-style through one reused buffer that is overwritten after every Write; overflow exactly when buffered+new > limit, default 64 KiB, negative = unlimited), preemptable writer (<= interval writes reach downstream after cancellation, none after ErrWritePreempted), valve (nothing after Shut, success reported, nil writer = shut), multi-closer (each once, in order, first error); concurrent rounds for concurrent writer, valve vs Shut, preemptable vs cancel under the race detector; distinct = per-helper classes of non-trivial cases (cutoff exceeded, short writes seen, overflow hit, cancellation phase, shut position, error count)", 40)
}
