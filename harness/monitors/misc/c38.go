package main

import (
	"fmt"
	"math/rand"
	"os"
	"strings"
	"sync"

	"google.golang.org/protobuf/proto"

	"github.com/mutagen-io/mutagen/pkg/url"

	"verif/internal/vk"
)

var (
	urlUsers = []string{"", "", "u", "user", "a-b", "-l", "-oProxyCommand=x", "a@b", "a:b", "@", "ü", "u.v", "x y", "A"}
	urlHosts = []string{"h", "host", "example.com", "10.0.0.1", "[::1]", "-h", "h@x", "", "tcp", "unix", "c", "C", "my-container", "0", "12", "h.", "x@y@z"}
	urlPaths = []string{"/p", "/", "p", "p/q", "~", "~/x", "~u/x", "~root", "C:\\x", "C:/x", "c:\\", "z:/", "/C:\\x", "/c:/x", "rel/a:b", "./a:b",
		"a:b", "12:x", "12", "0:1:p", ":", "", "//x", "/~x", "/~", "~C:\\x", "~c:/y", " ", "/p q", "/ü", "/a@b", "/p:1", "1", "01:/p", "-p", "/-p", "C:", "C:x", "9:/x", "\\\\srv\\share"}
	urlEndpoints = []string{"tcp:localhost:80", "tcp::80", "tcp4:1.2.3.4:5", "tcp6:[::1]:80", "unix:/s.sock", "unix:rel.sock", "unix:~/s.sock", "unix:/a:b",
		"npipe:\\\\.\\pipe\\x", "tcp:", "udp:x:1", "unix:", "tcp", "unix:/", "tcp:@:1", "TCP:h:1", "tcp:h", "unix:/x/../y", "unix:sub/../s", "tcp: :1"}
	urlDockerPrefixes = []string{"docker://", "docker://", "DOCKER://", "Docker://", "dOcKeR://", "docker:/", "docker:", "docker:///"}
	urlAtoms          = []string{"@", ":", "/", "-", "~", "\\", "0", "1", "22", "a", "b", "C", "h", "tcp", "unix", "docker://", " ", ".", "..", "[", "]"}
)

func pick(rng *rand.Rand, l []string) string { return l[rng.Intn(len(l))] }

func genPort(rng *rand.Rand) string {
	switch rng.Intn(10) {
	case 0:
		return ""
	case 1:
		return pick(rng, []string{"0", "00", "65535", "65536", "70000", "065535", "000022", "+22", "-1", "22x", " 22"})
	}
	p := fmt.Sprint(rng.Intn(70001))
	if rng.Intn(3) == 0 {
		p = strings.Repeat("0", 1+rng.Intn(3)) + p
	}
	return p
}

// genURL produces one raw string and the name of the production used.
func genURL(rng *rand.Rand, kind url.Kind) (string, string) {
	tail := func() string {
		if kind == url.Kind_Forwarding && rng.Intn(8) != 0 {
			return pick(rng, urlEndpoints)
		}
		if kind == url.Kind_Synchronization && rng.Intn(12) != 0 {
			return pick(rng, urlPaths)
		}
		if rng.Intn(2) == 0 {
			return pick(rng, urlEndpoints)
		}
		return pick(rng, urlPaths)
	}
	switch x := rng.Intn(20); {
	case x < 4: // local
		return tail(), "local"
	case x < 11: // SCP-style
		var b strings.Builder
		if u := pick(rng, urlUsers); u != "" || rng.Intn(10) == 0 {
			b.WriteString(u + "@")
		}
		b.WriteString(pick(rng, urlHosts) + ":")
		if rng.Intn(2) == 0 {
			b.WriteString(genPort(rng) + ":")
		}
		b.WriteString(tail())
		return b.String(), "scp"
	case x < 18: // Docker
		var b strings.Builder
		b.WriteString(pick(rng, urlDockerPrefixes))
		if u := pick(rng, urlUsers); u != "" || rng.Intn(6) == 0 {
			b.WriteString(u + "@")
		}
		b.WriteString(pick(rng, urlHosts))
		t := tail()
		if kind == url.Kind_Forwarding {
			b.WriteString(":" + t)
		} else if strings.HasPrefix(t, "/") || rng.Intn(4) == 0 {
			b.WriteString(t)
		} else {
			b.WriteString("/" + t)
		}
		return b.String(), "docker"
	default: // unstructured concatenation of atoms
		var b strings.Builder
		for i, n := 0, 1+rng.Intn(7); i < n; i++ {
			if rng.Intn(3) == 0 {
				b.WriteString(tail())
			} else {
				b.WriteString(pick(rng, urlAtoms))
			}
		}
		return b.String(), "atoms"
	}
}

func protoName(p url.Protocol) string {
	t, _ := p.MarshalText()
	return string(t)
}

func describeURL(u *url.URL) map[string]any {
	if u == nil {
		return nil
	}
	return map[string]any{"kind": u.Kind.String(), "protocol": protoName(u.Protocol), "user": u.User, "host": u.Host, "port": u.Port, "path": u.Path, "environment": u.Environment}
}

func isDigits(s string) bool {
	for _, c := range s {
		if c < '0' || c > '9' {
			return false
		}
	}
	return true
}

// shapeOf names the shape of a URL whose round trip failed, so that one
// specific defect can be listed without hiding any other.
func shapeOf(u *url.URL) string {
	switch u.Protocol {
	case url.Protocol_Docker:
		if u.User == "" && strings.Contains(u.Host, "@") {
			return "empty-user" // docker://@x@y/p : only an empty user name lets '@' into the container name
		}
	case url.Protocol_SSH:
		if u.Port == 0 && u.Kind == url.Kind_Synchronization {
			if i := strings.IndexByte(u.Path, ':'); i >= 0 && isDigits(u.Path[:i]) {
				return "zero-port-digits-colon-path" // h:0:12:x : an explicit port 0 is not formatted, the path's "12:" is then read as the port
			}
		}
	}
	return "other"
}

func c38() {
	r := vk.Start("C38", "exploration")
	col := newCollector()
	// Fix the Docker environment for the whole run (both generic and endpoint-specific variables).
	for _, v := range url.DockerEnvironmentVariables {
		for _, p := range []string{"", "MUTAGEN_ALPHA_", "MUTAGEN_BETA_", "MUTAGEN_SOURCE_", "MUTAGEN_DESTINATION_"} {
			os.Unsetenv(p + v)
		}
	}
	os.Setenv("DOCKER_HOST", "tcp://fixed.example:2375")
	os.Setenv("DOCKER_TLS_VERIFY", "") // present but empty
	os.Setenv("MUTAGEN_ALPHA_DOCKER_HOST", "unix:///alpha.sock")
	os.Setenv("MUTAGEN_DESTINATION_DOCKER_CONTEXT", "ctx two")
	os.Unsetenv("MUTAGEN_EXTENSION") // keep the ordinary (non Docker-Desktop-extension) validation rules
	if os.Getenv("HOME") == "" {
		os.Setenv("HOME", "/root")
	}

	n := r.Pick(100000, 5000000)
	const chunk = 2000
	chunks := (n + chunk - 1) / chunk
	var mu sync.Mutex
	accepted := map[string]int64{}
	distinct := map[string]struct{}{}
	var sampled int
	var wg sync.WaitGroup
	for w := 0; w < workers; w++ {
		wg.Add(1)
		go func(w int) {
			defer wg.Done()
			acc := map[string]int64{}
			dist := map[string]struct{}{}
			evals := 0
			for ci := w; ci < chunks; ci += workers {
				rng := r.Rand(fmt.Sprintf("urls-%d", ci))
				for j := 0; j < chunk && ci*chunk+j < n; j++ {
					for _, kind := range []url.Kind{url.Kind_Synchronization, url.Kind_Forwarding} {
						raw, production := genURL(rng, kind)
						first := rng.Intn(2) == 0
						evals++
						c38one(r, col, raw, production, kind, first, acc, dist, &mu, &sampled)
					}
				}
			}
			r.Eval(evals)
			mu.Lock()
			for k, v := range acc {
				accepted[k] += v
			}
			for k := range dist {
				distinct[k] = struct{}{}
			}
			mu.Unlock()
		}(w)
	}
	wg.Wait()
	emptyUser := col.count(map[string]string{"rule": "roundtrip", "protocol": "docker", "shape": "empty-user"})
	zeroPort := col.count(map[string]string{"rule": "roundtrip", "protocol": "ssh", "shape": "zero-port-digits-colon-path"})
	col.flush(r)
	for k := range distinct {
		r.Distinct(k)
	}
	r.Note("accepted_by_protocol_and_kind", accepted)
	r.Count("roundtrip_failures_docker_empty_user", int64(emptyUser))
	r.Count("roundtrip_failures_ssh_zero_port_digits_colon_path", int64(zeroPort))
	r.Assume("Docker environment variables are fixed for the run; both parses use the same alpha/beta (source/destination) position")
	r.Assume("POSIX host: Windows drive paths are local only on Windows, so here they parse as SCP-style URLs; MUTAGEN_EXTENSION is unset")
	r.Finish("seeded grammar-generated strings (local paths and forwarding endpoints, SCP-style [user@]host:[port:]path with ports 0..70000 and leading zeros, docker:// in mixed case with users/containers containing @ : -, Windows and ~ paths, unstructured atom concatenations) parsed as synchronization and as forwarding URL; for every accepted string: EnsureValid, Parse(Format(\"\")) and equality (URL.Equal and proto.Equal) with the first result; non-trivial = accepted by Parse; distinct = (kind, protocol, user?, port?, path class) of accepted URLs", 15)
}

func pathClass(p string) string {
	switch {
	case p == "":
		return "empty"
	case p[0] == '/':
		return "abs"
	case p[0] == '~':
		return "home"
	case len(p) >= 3 && p[1] == ':' && (p[2] == '\\' || p[2] == '/'):
		return "windows"
	case strings.Contains(p, ":"):
		return "colon"
	}
	return "rel"
}

func c38one(r *vk.Run, col *collector, raw, production string, kind url.Kind, first bool, acc map[string]int64, dist map[string]struct{}, mu *sync.Mutex, sampled *int) {
	w := map[string]any{"raw": raw, "kind": kind.String(), "first": first, "production": production}
	r.Guard(w, func() {
		u, err := url.Parse(raw, kind, first)
		if err != nil {
			return
		}
		p := protoName(u.Protocol)
		acc[p+"|"+kind.String()]++
		dist[fmt.Sprintf("%s|%s|u%v|p%v|%s", kind, p, u.User != "", u.Port != 0, pathClass(u.Path))] = struct{}{}
		w["parsed"] = describeURL(u)
		fail := func(sig map[string]string, what string) {
			col.add(sig, len(raw), raw+"|"+kind.String(), what, w)
		}
		if err := u.EnsureValid(); err != nil {
			fail(map[string]string{"rule": "parsed-url-invalid", "protocol": p}, fmt.Sprintf("Parse(%q, %s) succeeded but EnsureValid says: %v", raw, kind, err))
			return
		}
		formatted := u.Format("")
		w["formatted"] = formatted
		u2, err := url.Parse(formatted, kind, first)
		if err != nil {
			w["reparse_error"] = err.Error()
			fail(map[string]string{"rule": "roundtrip", "protocol": p, "shape": shapeOf(u)},
				fmt.Sprintf("%q parses (%s), formats as %q, which does not parse: %v", raw, kind, formatted, err))
			return
		}
		if !u.Equal(u2) || !proto.Equal(u, u2) {
			w["reparsed"] = describeURL(u2)
			fail(map[string]string{"rule": "roundtrip", "protocol": p, "shape": shapeOf(u)},
				fmt.Sprintf("%q parses (%s) to %v, formats as %q, which parses to a different URL %v", raw, kind, describeURL(u), formatted, describeURL(u2)))
			return
		}
		if u.Protocol != url.Protocol_Local && (u.User != "" || u.Port != 0) {
			mu.Lock()
			if *sampled < 4 {
				*sampled++
				r.Sample(map[string]any{"raw": raw, "kind": kind.String(), "parsed": describeURL(u), "formatted": formatted})
			}
			mu.Unlock()
		}
	})
}
