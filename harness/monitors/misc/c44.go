package main

import (
	"bytes"
	"fmt"
	"io"
	"math/rand"
	"regexp"
	"sort"
	"strings"
	"sync"

	"github.com/mutagen-io/mutagen/pkg/logging"

	"verif/internal/vk"
)

// logSink captures every Write call separately.
type logSink struct {
	mu     sync.Mutex
	writes [][]byte
}

func (s *logSink) Write(p []byte) (int, error) {
	s.mu.Lock()
	s.writes = append(s.writes, append([]byte{}, p...))
	s.mu.Unlock()
	return len(p), nil
}

const levelLetters = "_EWIDT"

// loggerLinePrefix recognises the output of another logger (the documented
// relay rule of Logger.Writer): timestamp, level letter in brackets, space.
var loggerLinePrefix = regexp.MustCompile(`^\d{4}-\d{2}-\d{2} \d{2}:\d{2}:\d{2}\.\d{6} \[([_EWIDT])\] `)

// anyLinePrefix is what every line in the sink must start with.
var anyLinePrefix = regexp.MustCompile(`^\d{4}-\d{2}-\d{2} \d{2}:\d{2}:\d{2}\.\d{6} \[(.)\] `)

// neutral is the representation the package promises for the characters it neutralizes.
func neutral(s string) string {
	return strings.NewReplacer("\x1b", "^[", "\r", "\\r").Replace(s)
}

func firstSegment(s string) string {
	if i := strings.IndexAny(s, "\r\n"); i >= 0 {
		return s[:i]
	}
	return s
}

// expectation describes one record the sink must receive.
type expectation struct {
	Route     string // direct | relayed-text | relayed-logger-line
	Level     byte
	Scope     string
	Prefix    string // relayed logger lines: the incoming "timestamp [L] " prefix, which must be preserved
	BodyStart string // neutralized text the record's message must start with
	Optional  bool   // the level filter is not specified for this record ("[_]" lines)
	Source    string // what was logged / relayed
}

var forgedPrefix = regexp.MustCompile(`\d{6} \[.\] `)

func hazardsOf(src string) string {
	var h []string
	if strings.Contains(src, "\r") {
		h = append(h, "cr")
	}
	if strings.Contains(strings.TrimSuffix(src, "\n"), "\n") {
		h = append(h, "lf")
	}
	if strings.Contains(src, "\x1b") {
		h = append(h, "esc")
	}
	if forgedPrefix.MatchString(src) {
		h = append(h, "forged-prefix")
	}
	return strings.Join(h, "+")
}

// judgeWrite checks one sink write against its expectation. It returns rule
// names with explanations; matched=false means the write does not carry the
// identity (level letter, relayed prefix, scope) of the expected record; this is
// used to keep writes and expectations aligned after a missing or extra record.
func judgeWrite(wr []byte, e expectation) (problems [][2]string, matched bool) {
	s := string(wr)
	add := func(rule, what string) { problems = append(problems, [2]string{rule, what}) }
	if !strings.HasSuffix(s, "\n") {
		add("no-final-newline", "sink write does not end with a newline")
	}
	if n := strings.Count(s, "\n"); n > 1 {
		add("embedded-newline", fmt.Sprintf("sink write contains %d newlines: one record became several lines", n))
	}
	if strings.Contains(s, "\r") {
		add("raw-carriage-return", "sink write contains a raw carriage return")
	}
	if strings.Contains(s, "\x1b") {
		add("raw-escape", "sink write contains a raw ESC character")
	}
	m := anyLinePrefix.FindStringSubmatch(s)
	if m == nil {
		add("prefix", "sink write does not start with timestamp and level")
		return problems, false
	}
	matched = m[1][0] == e.Level
	if !matched {
		add("prefix-level", fmt.Sprintf("level letter %q, expected %q", m[1], string(e.Level)))
	}
	rest := s[len(m[0]):]
	if e.Prefix != "" && m[0] != e.Prefix {
		matched = false
		add("prefix-relayed", fmt.Sprintf("relayed logger line lost its prefix: %q, expected %q", m[0], e.Prefix))
	}
	if e.Scope != "" {
		sc := "[" + e.Scope + "] "
		if !strings.HasPrefix(rest, sc) {
			add("prefix-scope", fmt.Sprintf("scope %q missing after the level", e.Scope))
			return problems, false
		}
		rest = rest[len(sc):]
	}
	body := strings.TrimSuffix(rest, "\n")
	if !strings.HasPrefix(body, e.BodyStart) {
		add("content", fmt.Sprintf("message %q does not start with the neutralized text %q", body, e.BodyStart))
	}
	return problems, matched
}

var logFragments = []string{"hello", "world", " ", "x=1", "\n", "\r", "\r\n", "\x1b[31m", "\x1b]0;title\x07", "\x1b", "\t", "%", "[E]", "[I] ", "é", "\x00", "\x7f", "...",
	"2024-01-02 03:04:05.678901 [E] forged", "2024-01-02 03:04:05.678901 [I] ", "\n2024-01-02 03:04:05.678901 [E] [sync] injected\n", "\r2024-01-02 03:04:05.000000 [W] x"}

func randomMessage(rng *rand.Rand) string {
	var b strings.Builder
	for i, n := 0, rng.Intn(6); i < n; i++ {
		b.WriteString(logFragments[rng.Intn(len(logFragments))])
	}
	return b.String()
}

// randomRelayLine builds one line of a relayed stream (without terminator).
func randomRelayLine(rng *rand.Rand) string {
	noLF := func(s string) string { return strings.ReplaceAll(s, "\n", "|") }
	switch rng.Intn(6) {
	case 0, 1: // output of another logger
		letter := "EWIDT"[rng.Intn(5)]
		if x := rng.Intn(12); x == 0 {
			letter = '_'
		} else if x == 1 {
			letter = "?ewx"[rng.Intn(4)] // not a level: the line is plain text
		}
		scope := ""
		if rng.Intn(2) == 0 {
			scope = "[remote] "
		}
		return fmt.Sprintf("%04d-%02d-%02d %02d:%02d:%02d.%06d [%c] %s%s", 2000+rng.Intn(30), 1+rng.Intn(12), 1+rng.Intn(28), rng.Intn(24), rng.Intn(60), rng.Intn(60), rng.Intn(1000000), letter, scope, noLF(randomMessage(rng)))
	case 2: // nearly a logger line
		return fmt.Sprintf("2024-01-02 03:04:05.67890 [E] %s", noLF(randomMessage(rng)))
	case 3:
		return ""
	default:
		return noLF(randomMessage(rng))
	}
}

func levelName(l logging.Level) string { return l.String() }

func c44() {
	r := vk.Start("C44", "exploration")
	col := newCollector()
	n := r.Pick(20000, 400000)
	var mu sync.Mutex
	hazardRecords := map[string]int64{}
	var wg sync.WaitGroup
	var sampled int
	for w := 0; w < workers; w++ {
		wg.Add(1)
		go func(w int) {
			defer wg.Done()
			local := map[string]int64{}
			evals := 0
			for idx := w; idx < n; idx += workers {
				rng := r.Rand(fmt.Sprintf("log-%d", idx))
				var sample map[string]any
				r.Guard(map[string]any{"case": idx}, func() {
					evals += c44case(r, col, rng, idx, local, &sample)
				})
				if sample != nil {
					mu.Lock()
					if sampled < 4 {
						sampled++
						r.Sample(sample)
					}
					mu.Unlock()
				}
			}
			r.Eval(evals)
			mu.Lock()
			for k, v := range local {
				hazardRecords[k] += v
			}
			mu.Unlock()
		}(w)
	}
	wg.Wait()
	col.flush(r)
	keys := make([]string, 0, len(hazardRecords))
	for k := range hazardRecords {
		keys = append(keys, k)
	}
	sort.Strings(keys)
	for _, k := range keys {
		if !strings.HasPrefix(k, "count:") {
			r.Distinct(k)
		} else {
			r.Count(strings.TrimPrefix(k, "count:"), hazardRecords[k])
		}
	}

	c44concurrent(r)

	r.Assume("the sink accepts every write; a \"[_]\" (disabled-level) relayed logger line is allowed to be written or dropped (the level filter is unspecified for it) but must be well formed if written")
	r.Assume("formatting follows fmt.Sprintln / fmt.Sprintf as documented on the logging methods; relayed lines are split at \\n with one trailing \\r removed, as documented on stream.LineProcessor")
	r.Finish("seeded random scripts against a real Logger with a capturing sink: logger level, 0..3 sublogger scopes, direct calls (Error..Trace, ln and f forms) with messages built from text, \\n, \\r, ESC sequences and forged log prefixes, and byte streams relayed through Logger.Writer in random fragments, two thirds of the cases io.Copy-style through one reused buffer that is overwritten after every Write (plain lines, lines that are another logger's output at every level, near misses); the sink writes must correspond one to one, in order, to the records that pass the level filter; each must be a single \\n-terminated line without raw \\r or ESC, start with timestamp, level letter and scope, and carry the neutralized text; distinct = (route, level, scoped?, hazards present) classes of records seen in the sink", 25)
}

// c44case runs one script; returns the number of records (expected ones plus filtered ones) judged.
func c44case(r *vk.Run, col *collector, rng *rand.Rand, idx int, stats map[string]int64, sample *map[string]any) int {
	sink := &logSink{}
	level := logging.Level(rng.Intn(6))
	root := logging.NewLogger(level, sink)
	logger := root
	scope := ""
	var script []string
	script = append(script, "NewLogger("+levelName(level)+")")
	var expected []expectation
	filtered := 0
	for d, depth := 0, rng.Intn(4); d < depth; d++ {
		name := []string{"sync", "agent_1", "X", "a_b", "fwd0"}[rng.Intn(5)]
		if rng.Intn(25) == 0 {
			// Documented: an invalid name yields a nil logger and a warning on the current logger.
			bad := []string{"", "a.b", "a b", "x\n", "é", "a]"}[rng.Intn(6)]
			script = append(script, fmt.Sprintf("Sublogger(%q)", bad))
			if level >= logging.LevelWarn {
				expected = append(expected, expectation{Route: "direct", Level: 'W', Scope: scope, BodyStart: "attempt to create sublogger with invalid name", Source: "invalid sublogger name"})
			} else {
				filtered++
			}
			logger = logger.Sublogger(bad)
			break
		}
		script = append(script, fmt.Sprintf("Sublogger(%q)", name))
		logger = logger.Sublogger(name)
		if scope == "" {
			scope = name
		} else {
			scope += "." + name
		}
	}
	if rng.Intn(60) == 0 {
		logger = nil // a nil logger is documented as a valid no-op logger
		script = append(script, "logger = nil")
	}
	live := logger != nil

	var relay io.Writer
	relayLevel := logging.Level(1 + rng.Intn(5))
	var pending []byte    // bytes relayed but not yet terminated by \n
	var copyBuffer []byte // the caller's single buffer in io.Copy-style cases

	for a, actions := 0, 1+rng.Intn(12); a < actions; a++ {
		if rng.Intn(3) > 0 {
			// Direct call.
			m := logging.Level(1 + rng.Intn(5))
			msg := randomMessage(rng)
			var formatted string
			form := rng.Intn(4)
			call := func(ln func(...any), f func(string, ...any)) {
				switch form {
				case 0:
					ln(msg)
					formatted = fmt.Sprintln(msg)
				case 1:
					other := randomMessage(rng)
					ln(msg, 7, other)
					formatted = fmt.Sprintln(msg, 7, other)
				case 2:
					f("%s", msg)
					formatted = fmt.Sprintf("%s\n", msg)
				default:
					format := "a\x1b[1m%s\rb%d\n%v"
					f(format, msg, idx, msg)
					formatted = fmt.Sprintf(format+"\n", msg, idx, msg)
				}
			}
			switch m {
			case logging.LevelError:
				call(logger.Error, logger.Errorf)
			case logging.LevelWarn:
				call(logger.Warn, logger.Warnf)
			case logging.LevelInfo:
				call(logger.Info, logger.Infof)
			case logging.LevelDebug:
				call(logger.Debug, logger.Debugf)
			default:
				call(logger.Trace, logger.Tracef)
			}
			script = append(script, fmt.Sprintf("%s form%d %q", levelName(m), form, formatted))
			if live && level >= m {
				expected = append(expected, expectation{Route: "direct", Level: levelLetters[m], Scope: scope, BodyStart: neutral(firstSegment(formatted)), Source: formatted})
			} else {
				filtered++
			}
			continue
		}
		// Relayed bytes.
		if relay == nil {
			relay = logger.Writer(relayLevel)
			script = append(script, "Writer("+levelName(relayLevel)+")")
		}
		var stream []byte
		for l, lines := 0, 1+rng.Intn(4); l < lines; l++ {
			stream = append(stream, randomRelayLine(rng)...)
			switch rng.Intn(5) {
			case 0:
				stream = append(stream, "\r\n"...)
			case 1: // leave the line unterminated for now
			default:
				stream = append(stream, '\n')
			}
		}
		script = append(script, fmt.Sprintf("relay %q", stream))
		// Model of the documented relay rule.
		pending = append(pending, stream...)
		for {
			i := bytes.IndexByte(pending, '\n')
			if i < 0 {
				break
			}
			line := string(bytes.TrimSuffix(pending[:i], []byte("\r")))
			pending = pending[i+1:]
			if !live {
				continue
			}
			if m := loggerLinePrefix.FindStringSubmatch(line); m != nil {
				lineLevel := logging.Level(strings.IndexByte(levelLetters, m[1][0]))
				e := expectation{Route: "relayed-logger-line", Level: m[1][0], Scope: scope, Prefix: m[0], BodyStart: neutral(line[len(m[0]):]), Source: line}
				if m[1][0] == '_' {
					e.Optional = true
					expected = append(expected, e)
				} else if level >= lineLevel {
					expected = append(expected, e)
				} else {
					filtered++
				}
			} else if level >= relayLevel {
				expected = append(expected, expectation{Route: "relayed-text", Level: levelLetters[relayLevel], Scope: scope, BodyStart: neutral(firstSegment(line)), Source: line})
			} else {
				filtered++
			}
		}
		// Feed the real writer in random fragments. Two thirds of the cases do it
		// the way io.Copy does (pkg/agent/transport relays agent stderr like this):
		// every fragment is copied into ONE reused buffer that is overwritten with
		// different bytes as soon as Write has returned.
		reuse := idx%3 != 0
		if reuse && len(copyBuffer) < len(stream) {
			copyBuffer = make([]byte, len(stream))
		}
		for len(stream) > 0 {
			k := 1 + rng.Intn(len(stream))
			if rng.Intn(3) == 0 {
				k = 1 + rng.Intn(1+len(stream)/4)
			}
			if stream[k-1] != '\n' {
				stats["count:relayed_fragments_ending_mid_line"]++
			}
			fragment := stream[:k]
			if reuse {
				fragment = copyBuffer[:k]
				copy(fragment, stream[:k])
				stats["count:relayed_fragments_through_reused_buffer"]++
			}
			nw, err := relay.Write(fragment)
			if reuse {
				for j := range copyBuffer {
					copyBuffer[j] = "\n2024-01-02 03:04:05.678901 [E] overwritten\r\x1b"[j%45]
				}
			}
			if err != nil || nw != k {
				col.add(map[string]string{"rule": "relay-write-failed"}, len(script), fmt.Sprint(idx), fmt.Sprintf("Logger.Writer's Write returned (%d, %v) for %d bytes", nw, err, k), map[string]any{"case": idx, "script": script})
			}
			stream = stream[k:]
		}
	}

	// Judge the sink.
	writes := sink.writes
	report := func(rule, route, what string, e *expectation, wr []byte) {
		w := map[string]any{"case": idx, "logger_level": levelName(level), "scope": scope, "script": script, "problem": what}
		if e != nil {
			w["record_source"] = e.Source
			w["record_route"] = e.Route
		}
		if wr != nil {
			w["sink_write"] = string(wr)
		}
		col.add(map[string]string{"rule": rule, "route": route}, len(script)*1000+len(fmt.Sprint(script)), fmt.Sprintf("%09d", idx), what, w)
	}
	wi := 0
	for ei := 0; ei < len(expected); ei++ {
		e := expected[ei]
		if wi >= len(writes) {
			if e.Optional {
				continue
			}
			report("record-missing", e.Route, fmt.Sprintf("no sink write for the record %q", e.Source), &e, nil)
			continue
		}
		problems, matched := judgeWrite(writes[wi], e)
		if !matched {
			if e.Optional {
				continue // the optional record was dropped; the write belongs to a later expectation
			}
			// Re-align: does a later write carry this record (then this write is surplus),
			// or does this write carry a later record (then this record is missing)?
			extra, missing := false, false
			for k := 1; k <= 3 && wi+k < len(writes) && !extra; k++ {
				_, extra = judgeWrite(writes[wi+k], e)
			}
			for k := 1; k <= 3 && ei+k < len(expected) && !missing; k++ {
				_, missing = judgeWrite(writes[wi], expected[ei+k])
			}
			if extra {
				report("extra-record", "any", fmt.Sprintf("sink received a write that corresponds to no record: %q", writes[wi]), nil, writes[wi])
				wi++
				ei--
				continue
			}
			if missing {
				report("record-missing", e.Route, fmt.Sprintf("no sink write for the record %q", e.Source), &e, nil)
				continue
			}
		}
		for _, p := range problems {
			report(p[0], e.Route, p[1], &e, writes[wi])
		}
		if len(problems) == 0 {
			h := hazardsOf(e.Source)
			stats[fmt.Sprintf("%s|%c|scoped=%v|%s", e.Route, e.Level, e.Scope != "", h)]++
			if h != "" {
				stats["count:records_with_hazard_neutralized"]++
			}
			stats["count:records_in_sink"]++
			if *sample == nil && strings.Contains(h, "esc") && strings.Contains(h, "cr") && e.Scope != "" {
				*sample = map[string]any{"route": e.Route, "source": e.Source, "logger_level": levelName(level), "sink_write": string(writes[wi])}
			}
		}
		wi++
	}
	for ; wi < len(writes); wi++ {
		report("extra-record", "any", fmt.Sprintf("sink received a write that corresponds to no record: %q", writes[wi]), nil, writes[wi])
	}
	stats["count:records_filtered_by_level"] += int64(filtered)
	return len(expected) + filtered
}

// c44concurrent: the Logger is documented as safe for concurrent use and as
// serializing access to the writer: records from concurrent goroutines must
// each arrive as one whole write.
func c44concurrent(r *vk.Run) {
	rounds := r.Pick(20, 200)
	for round := 0; round < rounds; round++ {
		sink := &logSink{}
		root := logging.NewLogger(logging.LevelTrace, sink)
		const goroutines, per = 8, 50
		var wg sync.WaitGroup
		for g := 0; g < goroutines; g++ {
			wg.Add(1)
			go func(g int) {
				defer wg.Done()
				l := root.Sublogger(fmt.Sprintf("g%d", g))
				w := l.Writer(logging.LevelInfo)
				for k := 0; k < per; k++ {
					token := fmt.Sprintf("<tok-%d-%d-%d>", round, g, k)
					switch k % 3 {
					case 0:
						l.Info(token, "\x1b[2J")
					case 1:
						l.Warnf("%s\rrest", token)
					default:
						fmt.Fprintf(w, "%s relayed\r\n", token)
					}
				}
			}(g)
		}
		wg.Wait()
		r.Eval(goroutines * per)
		tokens := regexp.MustCompile(`<tok-\d+-\d+-\d+>`)
		seen := map[string]int{}
		for _, wr := range sink.writes {
			found := tokens.FindAllString(string(wr), -1)
			bad := ""
			switch {
			case len(found) != 1:
				bad = fmt.Sprintf("sink write carries %d records", len(found))
			case bytes.Count(wr, []byte("\n")) != 1 || wr[len(wr)-1] != '\n':
				bad = "sink write is not exactly one line"
			case bytes.ContainsAny(wr, "\r\x1b"):
				bad = "sink write contains a raw control character"
			case !anyLinePrefix.Match(wr):
				bad = "sink write lacks the timestamp/level prefix"
			}
			if bad != "" {
				r.Violation(map[string]string{"rule": "concurrent-record-not-whole", "route": "concurrent"}, bad+fmt.Sprintf(": %q", wr), map[string]any{"round": round, "sink_write": string(wr)})
				continue
			}
			seen[found[0]]++
		}
		if len(seen) != goroutines*per || len(sink.writes) != goroutines*per {
			r.Violation(map[string]string{"rule": "concurrent-record-count", "route": "concurrent"}, fmt.Sprintf("%d goroutines x %d records gave %d sink writes with %d distinct tokens", goroutines, per, len(sink.writes), len(seen)), map[string]any{"round": round})
		}
		r.Distinct(fmt.Sprintf("concurrent|%d", round%4))
	}
	r.Count("concurrent_rounds", int64(rounds))
}
