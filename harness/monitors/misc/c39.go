package main

import (
	"bytes"
	crand "crypto/rand"
	"encoding/hex"
	"fmt"
	"math/big"
	"regexp"
	"strings"
	"unicode"
	"unicode/utf8"

	"github.com/mutagen-io/mutagen/pkg/identifier"
	"github.com/mutagen-io/mutagen/pkg/selection"

	"verif/internal/vk"
)

// scriptedRandom replaces crypto/rand.Reader in this process: it hands out the
// next scripted 32-byte value and records how it was asked.
type scriptedRandom struct {
	next     []byte
	reads    int
	badSizes int
}

func (s *scriptedRandom) Read(p []byte) (int, error) {
	s.reads++
	if len(p) != len(s.next) {
		s.badSizes++
	}
	n := copy(p, s.next)
	for i := n; i < len(p); i++ {
		p[i] = 0
	}
	return len(p), nil
}

// Documented format (pkg/identifier): 4 lowercase letters, '_', 43 Base62 characters.
var identifierFormat = regexp.MustCompile(`^[a-z]{4}_[0-9a-zA-Z]{43}$`)

func be32(v *big.Int) []byte {
	b := v.Bytes()
	out := make([]byte, 32)
	copy(out[32-len(b):], b)
	return out
}

// structuredValues builds the chosen 32-byte inputs.
func structuredValues() (vals [][]byte, families map[string]int) {
	families = map[string]int{}
	add := func(fam string, v []byte) {
		if len(v) != 32 {
			panic("bad structured value")
		}
		vals = append(vals, v)
		families[fam]++
	}
	add("all-zero", make([]byte, 32))
	add("all-ff", bytes.Repeat([]byte{0xff}, 32))
	for k := 1; k <= 31; k++ {
		rest := 32 - k
		for _, pat := range [][2]byte{{0x01, 0x00}, {0x01, 0x01}, {0xff, 0xff}, {0xff, 0x00}, {0x01, 0xff}, {0x80, 0x00}} {
			v := make([]byte, 32)
			v[k] = pat[0]
			for i := 1; i < rest; i++ {
				v[k+i] = pat[1]
			}
			add("leading-zero-bytes", v)
		}
	}
	for bit := 0; bit < 256; bit++ {
		v := make([]byte, 32)
		v[31-bit/8] = 1 << uint(bit%8)
		add("single-bit", v)
	}
	// Values at the digit-count boundaries of the Base62 encoding, and values
	// whose natural 43-digit encoding starts with a run of one digit: these are
	// the inputs on which a different padding rule would collide with another input.
	sixtyTwo := big.NewInt(62)
	limit := new(big.Int).Lsh(big.NewInt(1), 256)
	pow := make([]*big.Int, 44)
	pow[0] = big.NewInt(1)
	for i := 1; i <= 43; i++ {
		pow[i] = new(big.Int).Mul(pow[i-1], sixtyTwo)
	}
	for k := 1; k <= 42; k++ {
		add("base62-boundary", be32(pow[k]))
		add("base62-boundary", be32(new(big.Int).Sub(pow[k], big.NewInt(1))))
		add("base62-boundary", be32(new(big.Int).Add(pow[k], big.NewInt(1))))
	}
	for _, d := range []int64{1, 10, 35, 36, 60} {
		for l := 1; l <= 42; l++ {
			run := new(big.Int)
			for i := l; i <= 42; i++ {
				run.Add(run, new(big.Int).Mul(big.NewInt(d), pow[i]))
			}
			for _, tail := range []*big.Int{pow[l-1], new(big.Int).Sub(pow[l], big.NewInt(1)), big.NewInt(0)} {
				v := new(big.Int).Add(run, tail)
				if v.Cmp(limit) < 0 {
					add("digit-run-prefix", be32(v))
				}
			}
		}
	}
	return
}

func c39() {
	r := vk.Start("C39", "exploration")
	src := &scriptedRandom{}
	original := crand.Reader
	crand.Reader = src
	defer func() { crand.Reader = original }()

	prefixes := []string{identifier.PrefixSynchronization, identifier.PrefixForwarding, identifier.PrefixProject, identifier.PrefixPrompter}
	seen := map[string]string{}     // identifier (without prefix) -> hex of the input
	inputs := map[string]struct{}{} // inputs already used (duplicates of the structured set are skipped)
	calls := 0
	check := func(value []byte, family string, idx int) {
		key := string(value)
		if _, dup := inputs[key]; dup {
			return
		}
		inputs[key] = struct{}{}
		prefix := prefixes[idx%len(prefixes)]
		src.next = value
		w := map[string]any{"input_hex": hex.EncodeToString(value), "prefix": prefix, "family": family}
		r.Guard(w, func() {
			id, err := identifier.New(prefix)
			calls++
			r.Eval(1)
			if err != nil {
				r.Violation(map[string]string{"rule": "new-error"}, "identifier.New failed: "+err.Error(), w)
				return
			}
			w["identifier"] = id
			if !identifierFormat.MatchString(id) {
				r.Violation(map[string]string{"rule": "format", "family": family}, fmt.Sprintf("identifier %q does not have the documented form prefix_ + 43 Base62 characters", id), w)
				return
			}
			if !strings.HasPrefix(id, prefix+"_") {
				r.Violation(map[string]string{"rule": "prefix", "family": family}, fmt.Sprintf("identifier %q does not start with the requested prefix %q", id, prefix), w)
			}
			if !identifier.IsValid(id) {
				r.Violation(map[string]string{"rule": "not-valid", "family": family}, fmt.Sprintf("identifier %q is rejected by IsValid", id), w)
			}
			t := identifier.Truncated(id)
			if t == "" || len(t) >= len(id) || !strings.HasPrefix(id, t) || !strings.HasPrefix(t, prefix+"_") {
				r.Violation(map[string]string{"rule": "truncated-not-prefix", "family": family}, fmt.Sprintf("Truncated(%q) = %q is not a proper prefix carrying the identifier prefix", id, t), w)
			}
			body := id[5:]
			if other, dup := seen[body]; dup {
				w["other_input_hex"] = hex.EncodeToString([]byte(other))
				r.Violation(map[string]string{"rule": "collision", "family": family}, fmt.Sprintf("two different 32-byte values give the same identifier body %q", body), w)
			}
			seen[body] = string(value)
			if family != "random" {
				r.Distinct(family + "|" + fmt.Sprint(len(strings.TrimLeft(body, "0"))))
			}
		})
	}

	vals, families := structuredValues()
	for i, v := range vals {
		check(v, famOf(i, vals, families), i)
	}
	r.Note("structured_families", families)
	r.Count("structured_values", int64(len(vals)))
	for i := 0; i < 3; i++ {
		v := vals[[]int{0, 40, 300}[i]]
		src.next = v
		id, _ := identifier.New("sync")
		calls++
		r.Sample(map[string]string{"input_hex": hex.EncodeToString(v), "identifier": id, "truncated": identifier.Truncated(id)})
	}
	rng := r.Rand("draws")
	nRandom := r.Pick(200000, 1000000)
	for i := 0; i < nRandom; i++ {
		v := make([]byte, 32)
		rng.Read(v)
		if i%7 == 0 { // random values with random numbers of leading zero bytes
			for j := 0; j < rng.Intn(32); j++ {
				v[j] = 0
			}
		}
		check(v, "random", i)
	}
	r.Count("random_draws", int64(nRandom))
	r.Count("distinct_identifiers", int64(len(seen)))
	// Liveness of the instrument: every New call must have drawn exactly 32 bytes from the scripted reader.
	r.Count("scripted_reader_reads", int64(src.reads))
	if src.reads != calls || src.badSizes != 0 {
		r.Inconclusive("scripted-random-not-used-as-expected")
		fmt.Printf("ERROR: property=C39 scripted crypto/rand.Reader saw %d reads (%d of unexpected size) for %d New calls\n", src.reads, src.badSizes, calls)
	}
	// Invalid prefixes are refused.
	for _, p := range []string{"", "syn", "syncx", "SYNC", "sy_c", "syn1", "sünc"} {
		if id, err := identifier.New(p); err == nil {
			r.Violation(map[string]string{"rule": "bad-prefix-accepted"}, fmt.Sprintf("New(%q) succeeded with %q", p, id), map[string]string{"prefix": p, "identifier": id})
		}
		r.Eval(1)
	}
	// Concurrent creation (managers and prompters create identifiers at the same time).
	c39interleavings(r, prefixes)
	c39hammer(r, prefixes)
	crand.Reader = original

	c39names(r)

	floor := 30
	if src.reads != calls || src.badSizes != 0 {
		floor = 1 << 30
	}
	r.Assume("crypto/rand.Reader is replaced inside the monitor process only; identifier.New draws exactly 32 bytes per identifier")
	r.Finish("identifier.New driven with chosen 32-byte values through a scripted crypto/rand.Reader: structured families (all-zero, all-ff, 1..31 leading zero bytes x 6 patterns, 256 single-bit values, Base62 digit-count boundaries 62^k and 62^k+-1, values whose 43-digit encoding starts with a run of one digit) and seeded random draws; format, IsValid, Truncated-prefix and exact collision freedom (map over all identifiers of the run) checked; session names: generated strings judged by the documented rule; concurrent creation: deterministic interleavings (one call held inside the scripted random read while one or two other calls complete, every ordered pair of prefixes) and 8 goroutines creating identifiers at once, each result judged by value (own prefix, documented form, IsValid, all distinct); distinct = (family, number of significant Base62 digits) for identifiers and (verdict, reason) classes for names", floor)
}

func famOf(i int, vals [][]byte, families map[string]int) string {
	// The families were appended in a fixed order; recover the family of index i.
	order := []string{"all-zero", "all-ff", "leading-zero-bytes", "single-bit", "base62-boundary", "digit-run-prefix"}
	for _, f := range order {
		if i < families[f] {
			return f
		}
		i -= families[f]
	}
	return "structured"
}

// ---------------------------------------------------------------------------
// Session names.

var uuidShape = regexp.MustCompile(`^[0-9a-fA-F]{8}-[0-9a-fA-F]{4}-[0-9a-fA-F]{4}-[0-9a-fA-F]{4}-[0-9a-fA-F]{12}$`)

// nameRule is the documented rule: empty is valid; otherwise Unicode letters,
// numbers and dashes only, starting with a letter; not a UUID; not "defaults".
func nameRule(name string) (valid bool, reason string) {
	if name == "" {
		return true, "empty"
	}
	if !utf8.ValidString(name) {
		return false, "invalid-utf8"
	}
	for i, c := range name {
		switch {
		case unicode.IsLetter(c):
		case i == 0:
			return false, "first-not-letter"
		case unicode.IsNumber(c), c == '-':
		default:
			return false, "bad-character"
		}
	}
	if uuidShape.MatchString(name) {
		return false, "uuid"
	}
	if name == "defaults" {
		return false, "reserved"
	}
	return true, "ok"
}

func c39names(r *vk.Run) {
	rng := r.Rand("names")
	pools := [][]rune{
		[]rune("abcdefxyzABCXYZ"),
		[]rune("0123456789"),
		[]rune("-"),
		[]rune("_ .:/@"),
		[]rune("éßñ日本語жΩ"),
		[]rune("٣²Ⅷ¼"),      // Unicode numbers (Nd, No, Nl)
		[]rune("́​🙂\x1b\n"), // combining mark, zero-width space, emoji, control characters
	}
	sampledName := false
	judge := func(name string, class string) {
		r.Eval(1)
		valid, reason := nameRule(name)
		var err error
		r.Guard(map[string]string{"name": name}, func() { err = selection.EnsureNameValid(name) })
		accepted := err == nil
		if accepted != valid {
			w := map[string]any{"name": name, "name_quoted": fmt.Sprintf("%+q", name), "documented_rule_says": reason, "accepted": accepted}
			if err != nil {
				w["error"] = err.Error()
			}
			rule := "name-accepted-against-rule"
			if !accepted {
				rule = "name-rejected-against-rule"
			}
			r.Violation(map[string]string{"rule": rule, "reason": reason}, fmt.Sprintf("EnsureNameValid(%+q) accepted=%v, the documented rule says %s", name, accepted, reason), w)
		}
		if class == "uuid-shaped" && reason == "uuid" && !sampledName {
			sampledName = true
			r.Sample(map[string]any{"name": name, "documented_rule_says": reason, "accepted": accepted})
		}
		r.Distinct("name|" + class + "|" + reason)
		r.Count("names_"+reason, 1)
	}
	for _, fixed := range []string{"", "defaults", "Defaults", "defaults1", "default", "a", "a-", "-a", "a_b", "1a", "a1", "é1-ß",
		"abcdef0123456789abcdef0123456789", "sync_0123456789abcdefghijklmnopqrstuvwxyzABCDEFG"} {
		judge(fixed, "fixed")
	}
	hexd := "0123456789abcdefABCDEF"
	n := r.Pick(60000, 600000)
	for i := 0; i < n; i++ {
		switch i % 4 {
		case 0: // UUID-shaped, sometimes damaged in one position
			var b strings.Builder
			upper := rng.Intn(3)
			for j, l := range []int{8, 4, 4, 4, 12} {
				if j > 0 {
					b.WriteByte('-')
				}
				for k := 0; k < l; k++ {
					c := hexd[rng.Intn(16)]
					if upper == 1 || (upper == 2 && rng.Intn(2) == 0) {
						c = hexd[[]int{0, 1, 2, 3, 4, 5, 6, 7, 8, 9, 16, 17, 18, 19, 20, 21}[rng.Intn(16)]]
					}
					b.WriteByte(c)
				}
			}
			s := []byte(b.String())
			if rng.Intn(2) == 0 {
				s[0] = "abcdefABCDEF"[rng.Intn(12)] // make it start with a letter so that only the UUID rule can reject it
			}
			switch rng.Intn(6) {
			case 0:
				s[rng.Intn(len(s))] = 'g'
			case 1:
				s = s[:len(s)-1]
			case 2:
				s = append(s, 'a')
			}
			judge(string(s), "uuid-shaped")
		default:
			l := 1 + rng.Intn(12)
			var b strings.Builder
			for k := 0; k < l; k++ {
				var pool []rune
				if x := rng.Intn(20); x < 10 {
					pool = pools[0]
				} else if x < 13 {
					pool = pools[1]
				} else if x < 15 {
					pool = pools[2]
				} else {
					pool = pools[3+rng.Intn(4)]
				}
				b.WriteRune(pool[rng.Intn(len(pool))])
			}
			s := b.String()
			if rng.Intn(40) == 0 {
				s += "\xff" // invalid UTF-8
			}
			judge(s, "random")
		}
	}
}
