package main

import (
	"encoding/json"
	"fmt"
	"strings"
	"sync"

	"github.com/mutagen-io/mutagen/pkg/container/lru"

	"verif/internal/vk"
)

// lruModel is the reference: a slice ordered from least to most recently used.
// What the package documents: capacity 0 = no limit; Add of an existing key
// updates the value and makes it most recent; adding beyond capacity evicts the
// least recently used entry; Get makes the entry most recent; Remove removes
// and (like an eviction) invokes the callback; the callback is invoked for
// every entry that leaves the cache.
type lruModel struct {
	cap     int
	keys    []int // least recently used first
	vals    [8]int
	present [8]bool
	evicted []int // key*1000000+value, in callback order
}

func (m *lruModel) touch(k int) {
	for i, x := range m.keys {
		if x == k {
			copy(m.keys[i:], m.keys[i+1:])
			m.keys[len(m.keys)-1] = k
			return
		}
	}
}

func (m *lruModel) add(k, v int) {
	if m.present[k] {
		m.vals[k] = v
		m.touch(k)
		return
	}
	m.keys = append(m.keys, k)
	m.vals[k], m.present[k] = v, true
	if m.cap != 0 && len(m.keys) > m.cap {
		old := m.keys[0]
		copy(m.keys, m.keys[1:])
		m.keys = m.keys[:len(m.keys)-1]
		m.evicted = append(m.evicted, old*1000000+m.vals[old])
		m.present[old] = false
	}
}

func (m *lruModel) get(k int) (int, bool) {
	if m.present[k] {
		m.touch(k)
		return m.vals[k], true
	}
	return 0, false
}

func (m *lruModel) remove(k int) {
	if m.present[k] {
		m.touch(k)
		m.keys = m.keys[:len(m.keys)-1]
		m.present[k] = false
		m.evicted = append(m.evicted, k*1000000+m.vals[k])
	}
}

func evText(l []int) string {
	parts := make([]string, len(l))
	for i, x := range l {
		parts[i] = fmt.Sprintf("%d=%d", x/1000000, x%1000000)
	}
	return "[" + strings.Join(parts, " ") + "]"
}

// lruOp encodes one operation: kind 0 Add, 1 Get, 2 Remove, 3 Len.
type lruOp struct{ kind, key int }

func (o lruOp) String() string {
	switch o.kind {
	case 0:
		return fmt.Sprintf("Add(%d)", o.key)
	case 1:
		return fmt.Sprintf("Get(%d)", o.key)
	case 2:
		return fmt.Sprintf("Remove(%d)", o.key)
	}
	return "Len"
}

// lruRun executes a sequence on the real cache and on the model, comparing
// every result, the length and the eviction log after every step. It returns
// a description of the first disagreement, the rule it breaks, and the number of evictions.
func lruRun(capacity int, ops []lruOp, withCallback bool, nkeys int) (rule, what string, evictions int, removals int) {
	var log []int
	var cb func(int, int)
	if withCallback {
		cb = func(k, v int) { log = append(log, k*1000000+v) }
	}
	c := lru.New[int, int](capacity, cb)
	m := &lruModel{cap: capacity}
	for i, o := range ops {
		before := len(m.evicted)
		switch o.kind {
		case 0:
			c.Add(o.key, 100+i) // values are unique per step
			m.add(o.key, 100+i)
			evictions += len(m.evicted) - before
		case 1:
			v, ok := c.Get(o.key)
			mv, mok := m.get(o.key)
			if ok != mok || (ok && v != mv) {
				return "get-result", fmt.Sprintf("step %d %v returned (%d,%v), model (%d,%v)", i, o, v, ok, mv, mok), evictions, removals
			}
		case 2:
			c.Remove(o.key)
			m.remove(o.key)
			removals += len(m.evicted) - before
		case 3:
		}
		if c.Len() != len(m.keys) {
			return "length", fmt.Sprintf("after step %d %v Len()=%d, model %d", i, o, c.Len(), len(m.keys)), evictions, removals
		}
		if withCallback {
			same := len(log) == len(m.evicted)
			for j := before; same && j < len(log); j++ {
				same = log[j] == m.evicted[j]
			}
			if !same {
				rule := "callback-log"
				if len(log) > len(m.evicted) {
					rule = "callback-extra"
				} else if len(log) < len(m.evicted) {
					rule = "callback-missing"
				} else {
					rule = "callback-wrong-entry"
				}
				return rule, fmt.Sprintf("after step %d %v eviction callbacks so far %s, model %s", i, o, evText(log), evText(m.evicted)), evictions, removals
			}
		}
	}
	// Final contents: every key present in the model is retrievable with its value, every other key is not.
	// (Gets disturb recency, but the sequence is over.)
	for k := 0; k < nkeys; k++ {
		v, ok := c.Get(k)
		mv, mok := m.vals[k], m.present[k]
		if ok != mok || (ok && v != mv) {
			return "final-contents", fmt.Sprintf("after the sequence key %d: cache (%d,%v), model (%d,%v)", k, v, ok, mv, mok), evictions, removals
		}
	}
	return "", "", evictions, removals
}

// lruCase is rendered only if a witness is really written.
type lruCase struct {
	Capacity int
	Ops      []lruOp
}

func (c lruCase) MarshalJSON() ([]byte, error) {
	return json.Marshal(map[string]any{"capacity": c.Capacity, "operations": opsText(c.Ops)})
}

func opsText(ops []lruOp) string {
	parts := make([]string, len(ops))
	for i, o := range ops {
		parts[i] = o.String()
	}
	return strings.Join(parts, " ")
}

func c45() {
	r := vk.Start("C45", "exploration")
	col := newCollector()
	var wg sync.WaitGroup
	var mu sync.Mutex
	sigs := map[string]struct{}{}
	var base []lruOp
	for k := 0; k < 3; k++ {
		base = append(base, lruOp{0, k}, lruOp{1, k}, lruOp{2, k})
	}
	// Quick: every sequence of exactly 6 operations over Add/Get/Remove x 3 keys + Len,
	// and of exactly 7 operations over Add/Get/Remove x 3 keys (Len() is observed after
	// every step in any case). Thorough: the same at lengths 8 and 9; 10^9 x 4 runs with
	// Len as an operation would not fit the budget.
	type space struct {
		length    int
		withLen   bool
		canonical bool // only sequences in which keys first appear in the order 0,1,2 (all others are key renamings of these)
	}
	spaces := []space{{6, true, false}, {7, false, false}}
	if !r.Quick() {
		spaces = []space{{8, true, false}, {9, false, true}}
	}
	var notes []string
	for _, sp := range spaces {
		length := sp.length
		alphabet := append([]lruOp{}, base...)
		if sp.withLen {
			alphabet = append(alphabet, lruOp{3, 0})
		}
		total := 1
		for i := 0; i < length; i++ {
			total *= len(alphabet)
		}
		notes = append(notes, fmt.Sprintf("all %d sequences of exactly %d operations over an alphabet of %d operations ({Add,Get,Remove}x3 keys, Len as an operation: %v; restricted to one representative per renaming of the keys: %v; every shorter sequence is a checked prefix), capacities 0..3", total, length, len(alphabet), sp.withLen, sp.canonical))
		for w := 0; w < workers; w++ {
			wg.Add(1)
			go func(w int) {
				defer wg.Done()
				ops := make([]lruOp, length)
				local := map[int]struct{}{}
				n := 0
				var evs, rems int64
				for idx := w; idx < total; idx += workers {
					x := idx
					for i := length - 1; i >= 0; i-- {
						ops[i] = alphabet[x%len(alphabet)]
						x /= len(alphabet)
					}
					if sp.canonical {
						next, ok := 0, true
						for _, o := range ops {
							if o.kind == 3 {
								continue
							}
							if o.key > next {
								ok = false
								break
							} else if o.key == next {
								next++
							}
						}
						if !ok {
							continue
						}
					}
					for capacity := 0; capacity <= 3; capacity++ {
						var rule, what string
						var ev, rm int
						r.Guard(lruCase{capacity, ops}, func() {
							rule, what, ev, rm = lruRun(capacity, ops, true, 3)
						})
						n++
						evs += int64(ev)
						rems += int64(rm)
						if rule != "" {
							col.add(map[string]string{"rule": rule, "capacity": fmt.Sprint(capacity)}, length, opsText(ops), what,
								map[string]any{"capacity": capacity, "operations": opsText(ops), "disagreement": what})
						}
						if ev > 0 {
							local[capacity*10000+ev*100+rm] = struct{}{}
						}
					}
				}
				r.Eval(n)
				r.Count("exhaustive_sequences", int64(n))
				r.Count("capacity_evictions_observed", evs)
				r.Count("explicit_removals_observed", rems)
				mu.Lock()
				for k := range local {
					sigs[fmt.Sprintf("cap%d|ev%d|rm%d", k/10000, k/100%100, k%100)] = struct{}{}
				}
				mu.Unlock()
			}(w)
		}
		wg.Wait()
		col.flush(r)
	}
	r.Note("bounded_space", notes)

	// Random long sequences over more keys and capacities, with and without a callback.
	nRandom := r.Pick(2000, 100000)
	for w := 0; w < workers; w++ {
		wg.Add(1)
		go func(w int) {
			defer wg.Done()
			n := 0
			for idx := w; idx < nRandom; idx += workers {
				rng := r.Rand(fmt.Sprintf("lru-%d", idx))
				capacity := rng.Intn(7)
				nkeys := 1 + rng.Intn(8)
				ops := make([]lruOp, 20+rng.Intn(400))
				for i := range ops {
					kind := rng.Intn(10)
					switch {
					case kind < 5:
						kind = 0
					case kind < 8:
						kind = 1
					case kind < 9:
						kind = 2
					default:
						kind = 3
					}
					ops[i] = lruOp{kind, rng.Intn(nkeys)}
				}
				withCallback := idx%5 != 0
				var rule, what string
				var ev, rm int
				r.Guard(map[string]any{"capacity": capacity, "ops": opsText(ops), "callback": withCallback}, func() {
					rule, what, ev, rm = lruRun(capacity, ops, withCallback, nkeys)
				})
				n++
				if rule != "" {
					col.add(map[string]string{"rule": rule, "capacity": fmt.Sprint(capacity), "route": "random"}, len(ops), fmt.Sprint(idx), what,
						map[string]any{"capacity": capacity, "operations": opsText(ops), "callback": withCallback, "disagreement": what})
				}
				if ev > 0 {
					mu.Lock()
					sigs[fmt.Sprintf("rnd|cap%d|keys%d|cb%v", capacity, nkeys, withCallback)] = struct{}{}
					mu.Unlock()
				}
				if idx < 2 {
					r.Sample(map[string]any{"capacity": capacity, "keys": nkeys, "operations": len(ops), "capacity_evictions": ev, "explicit_removals": rm, "first_operations": opsText(ops[:12])})
				}
			}
			r.Eval(n)
			r.Count("random_sequences", int64(n))
		}(w)
	}
	wg.Wait()
	col.flush(r)
	for k := range sigs {
		r.Distinct(k)
	}
	r.Assume("documented behaviour asserted: capacity 0 = unlimited; Add of an existing key updates and promotes without a callback; Remove of a present key invokes the callback; negative capacities are undocumented and not exercised")
	r.Finish("exhaustive operation sequences of the tier's length over 3 keys for capacities 0..3 plus seeded random long sequences (up to 8 keys, capacities 0..6, with and without callback) run on the real cache and a slice model; every Get result, Len and the eviction-callback log (key=value, in order) compared after every step; non-trivial = at least one capacity eviction happened; distinct = distinct (capacity, evictions, removals) classes", 20)
}
