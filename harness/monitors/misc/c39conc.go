package main

import (
	crand "crypto/rand"
	"crypto/sha256"
	"encoding/binary"
	"encoding/hex"
	"fmt"
	"runtime/debug"
	"strings"
	"sync"
	"sync/atomic"
	"time"

	"github.com/mutagen-io/mutagen/pkg/identifier"

	"verif/internal/vk"
)

// judgeConcurrentID checks one identifier returned by a call that overlapped
// with other calls: it must carry ITS OWN prefix, have the documented form and
// pass IsValid. It returns "" or the rule broken.
func judgeConcurrentID(id string, err error, prefix string) (rule, what string) {
	switch {
	case err != nil:
		return "new-error", "identifier.New failed: " + err.Error()
	case !identifierFormat.MatchString(id):
		return "format", fmt.Sprintf("identifier %q (%d characters) does not have the documented form prefix_ + 43 Base62 characters", id, len(id))
	case !strings.HasPrefix(id, prefix+"_"):
		return "prefix", fmt.Sprintf("identifier %q does not carry the prefix %q its caller asked for", id, prefix)
	case !identifier.IsValid(id):
		return "not-valid", fmt.Sprintf("identifier %q is rejected by IsValid", id)
	}
	return "", ""
}

// gateReader is a scripted crypto/rand.Reader used as a gate: the first
// `hold` calls block inside Read (after announcing themselves) until released;
// later calls return at once. Call i receives vals[i].
type gateReader struct {
	mu      sync.Mutex
	calls   int
	hold    int
	vals    [][]byte
	entered chan int
	release chan struct{}
}

func (g *gateReader) Read(p []byte) (int, error) {
	g.mu.Lock()
	i := g.calls
	g.calls++
	g.mu.Unlock()
	v := g.vals[i%len(g.vals)]
	if i < g.hold {
		g.entered <- i
		<-g.release
	}
	n := copy(p, v)
	for j := n; j < len(p); j++ {
		p[j] = 0
	}
	return len(p), nil
}

type idResult struct {
	id  string
	err error
}

// c39interleavings: call A blocks inside the random read while calls B (and C)
// run to completion, then A continues; every ordered pair of prefixes.
func c39interleavings(r *vk.Run, prefixes []string) {
	rng := r.Rand("interleavings")
	rounds := r.Pick(3, 30)
	cases := 0
	for round := 0; round < rounds; round++ {
		for _, pa := range prefixes {
			for _, pb := range prefixes {
				for extra := 0; extra < 2; extra++ { // extra=1: two calls complete while A is held
					vals := make([][]byte, 3)
					for i := range vals {
						vals[i] = make([]byte, 32)
						rng.Read(vals[i])
						if rng.Intn(3) == 0 { // leading zero bytes: the padding path
							for j := 0; j < 1+rng.Intn(31); j++ {
								vals[i][j] = 0
							}
						}
						vals[i][31] = byte(i) // pairwise distinct
						vals[i][30] = byte(cases)
					}
					gate := &gateReader{hold: 1, vals: vals, entered: make(chan int, 4), release: make(chan struct{})}
					crand.Reader = gate
					w := map[string]any{"held_call_prefix": pa, "overlapping_call_prefix": pb, "overlapping_calls": 1 + extra,
						"held_call_random": hex.EncodeToString(vals[0]), "overlapping_call_random": hex.EncodeToString(vals[1])}
					fmt.Printf("case C39 interleaving held=%s overlapping=%s x%d\n", pa, pb, 1+extra)
					resA := make(chan idResult, 1)
					go func() {
						defer func() {
							if p := recover(); p != nil {
								resA <- idResult{"", fmt.Errorf("panic: %v", p)}
							}
						}()
						id, err := identifier.New(pa)
						resA <- idResult{id, err}
					}()
					select {
					case <-gate.entered:
					case <-time.After(30 * time.Second):
						r.Inconclusive("gate-never-entered")
						close(gate.release)
						continue
					}
					var others []idResult
					var otherPrefixes []string
					r.Guard(w, func() {
						for k := 0; k <= extra; k++ {
							p := pb
							if k == 1 {
								p = prefixes[(cases+k)%len(prefixes)]
							}
							id, err := identifier.New(p)
							others = append(others, idResult{id, err})
							otherPrefixes = append(otherPrefixes, p)
						}
					})
					close(gate.release)
					var a idResult
					select {
					case a = <-resA:
					case <-time.After(30 * time.Second):
						r.Inconclusive("held-call-never-returned")
						continue
					}
					cases++
					r.Eval(1)
					w["held_call_result"] = a.id
					all := []string{a.id}
					report := func(rule, what, role string) {
						r.Violation(map[string]string{"rule": rule, "route": "concurrent-interleaving", "call": role}, what, w)
					}
					if rule, what := judgeConcurrentID(a.id, a.err, pa); rule != "" {
						report(rule, "call held inside the random read while another call completed: "+what, "held")
					}
					for k, o := range others {
						w[fmt.Sprintf("overlapping_call_%d_result", k)] = o.id
						if rule, what := judgeConcurrentID(o.id, o.err, otherPrefixes[k]); rule != "" {
							report(rule, "call that ran to completion while another call was inside New: "+what, "overlapping")
						}
						all = append(all, o.id)
					}
					seen := map[string]bool{}
					bodies := map[string]bool{}
					for _, id := range all {
						if seen[id] {
							report("collision", fmt.Sprintf("overlapping calls returned the same identifier %q", id), "both")
						}
						seen[id] = true
						if len(id) > 5 {
							if bodies[id[5:]] {
								report("collision", fmt.Sprintf("overlapping calls fed different random values returned the same identifier body %q", id[5:]), "both")
							}
							bodies[id[5:]] = true
						}
					}
					r.Distinct(fmt.Sprintf("interleave|%s|%s|%d", pa, pb, extra))
					if cases == 1 {
						r.Sample(w)
					}
				}
			}
		}
	}
	r.Count("concurrent_interleavings", int64(cases))
}

// counterReader hands every Read a value no other Read gets; safe for concurrent use.
type counterReader struct {
	n atomic.Uint64
}

func (c *counterReader) Read(p []byte) (int, error) {
	i := c.n.Add(1)
	var v [32]byte
	if i%2 == 0 {
		binary.BigEndian.PutUint64(v[24:], i) // 24 leading zero bytes: the padding path
	} else {
		var seed [8]byte
		binary.BigEndian.PutUint64(seed[:], i)
		v = sha256.Sum256(seed[:])
	}
	n := copy(p, v[:])
	for j := n; j < len(p); j++ {
		p[j] = 0
	}
	return len(p), nil
}

// c39hammer: N goroutines create identifiers at the same time.
func c39hammer(r *vk.Run, prefixes []string) {
	goroutines, per := 8, r.Pick(5000, 50000)
	src := &counterReader{}
	crand.Reader = src
	results := make([][]string, goroutines)
	errs := make([]error, goroutines)
	var start, wg sync.WaitGroup
	start.Add(1)
	for g := 0; g < goroutines; g++ {
		wg.Add(1)
		go func(g int) {
			defer wg.Done()
			prefix := prefixes[g%len(prefixes)]
			out := make([]string, 0, per)
			defer func() {
				if p := recover(); p != nil {
					results[g] = out
					r.Violation(map[string]string{"rule": "panic", "route": "concurrent-hammer"}, fmt.Sprintf("identifier.New panicked when called from %d goroutines at once: %v", goroutines, p),
						map[string]any{"goroutine": g, "requested_prefix": prefix, "stack": string(debug.Stack())})
				}
			}()
			start.Wait()
			for k := 0; k < per; k++ {
				id, err := identifier.New(prefix)
				if err != nil {
					errs[g] = err
					break
				}
				out = append(out, id)
			}
			results[g] = out
		}(g)
	}
	start.Done()
	wg.Wait()
	seen := map[string]int{}
	bodies := map[string]int{}
	bad := map[string]int{}
	for g, out := range results {
		prefix := prefixes[g%len(prefixes)]
		if errs[g] != nil {
			r.Violation(map[string]string{"rule": "new-error", "route": "concurrent-hammer"}, "identifier.New failed: "+errs[g].Error(), map[string]any{"goroutine": g})
		}
		for k, id := range out {
			r.Eval(1)
			rule, what := judgeConcurrentID(id, nil, prefix)
			if rule == "" {
				if _, dup := seen[id]; dup {
					rule, what = "collision", fmt.Sprintf("identifier %q was returned twice", id)
				} else if _, dup := bodies[id[5:]]; dup {
					rule, what = "collision", fmt.Sprintf("identifier body %q was returned twice although every call drew a different random value", id[5:])
				}
			}
			seen[id] = g
			if len(id) > 5 {
				bodies[id[5:]] = g
			}
			if rule != "" {
				bad[rule]++
				if bad[rule] <= 3 {
					r.Violation(map[string]string{"rule": rule, "route": "concurrent-hammer"}, fmt.Sprintf("%d goroutines calling identifier.New concurrently: %s", goroutines, what),
						map[string]any{"goroutine": g, "call": k, "requested_prefix": prefix, "identifier": id, "length": len(id)})
				} else {
					r.Violation(map[string]string{"rule": rule, "route": "concurrent-hammer"}, "(further case of the same kind)", nil)
				}
			}
		}
	}
	r.Count("concurrent_hammer_identifiers", int64(len(seen)))
	r.Count("concurrent_hammer_random_reads", int64(src.n.Load()))
	if int(src.n.Load()) != goroutines*per {
		r.Inconclusive("hammer-random-reads-mismatch")
	}
	r.Distinct(fmt.Sprintf("hammer|%dx%d", goroutines, per))
}
