// Monitor group misc: URL round trip (C38), identifiers and names (C39), log
// line neutralization (C44), LRU cache vs model (C45), stream helper writers (C47).
package main

import (
	"sort"
	"sync"

	"verif/internal/vk"
)

func main() {
	vk.Main("misc", map[string]func(){
		"C38": c38,
		"C39": c39,
		"C44": c44,
		"C45": c45,
		"C47": c47,
	})
}

// workers is a constant so that the partition of cases is a pure function of tier and seed.
const workers = 16

// collector buffers violations found by parallel workers and reports them in
// a deterministic order, smallest witness first.
type collector struct {
	mu   sync.Mutex
	kept map[string][]pendingViolation
	more map[string]int
	sigs map[string]map[string]string
}

type pendingViolation struct {
	size    int
	order   string
	what    string
	witness any
}

func newCollector() *collector {
	return &collector{kept: map[string][]pendingViolation{}, more: map[string]int{}, sigs: map[string]map[string]string{}}
}

func (c *collector) add(sig map[string]string, size int, order, what string, witness any) {
	key := vk.JSON(sig)
	c.mu.Lock()
	defer c.mu.Unlock()
	c.sigs[key] = sig
	for _, p := range c.kept[key] {
		if p.order == order && p.size == size { // the same input again: count it, keep one witness
			c.more[key]++
			return
		}
	}
	l := append(c.kept[key], pendingViolation{size, order, what, witness})
	sort.Slice(l, func(i, j int) bool {
		if l[i].size != l[j].size {
			return l[i].size < l[j].size
		}
		return l[i].order < l[j].order
	})
	if len(l) > 3 {
		c.more[key] += len(l) - 3
		l = l[:3]
	}
	c.kept[key] = l
}

// count returns how many violations with the given signature were collected.
func (c *collector) count(sig map[string]string) int {
	key := vk.JSON(sig)
	c.mu.Lock()
	defer c.mu.Unlock()
	return len(c.kept[key]) + c.more[key]
}

func (c *collector) flush(r *vk.Run) {
	c.mu.Lock()
	defer c.mu.Unlock()
	keys := make([]string, 0, len(c.kept))
	for k := range c.kept {
		keys = append(keys, k)
	}
	sort.Strings(keys)
	for _, k := range keys {
		for _, p := range c.kept[k] {
			r.Violation(c.sigs[k], p.what, p.witness)
		}
		for i := 0; i < c.more[k]; i++ {
			r.Violation(c.sigs[k], "(further case of the same kind)", nil)
		}
	}
	c.kept, c.more = map[string][]pendingViolation{}, map[string]int{}
}
