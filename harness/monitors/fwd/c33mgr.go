package main

import (
	"context"
	"errors"
	"fmt"
	"io"
	"net"
	"os"
	"path/filepath"
	"sync"
	"sync/atomic"
	"time"

	"github.com/mutagen-io/mutagen/pkg/forwarding"
	"github.com/mutagen-io/mutagen/pkg/logging"
	"github.com/mutagen-io/mutagen/pkg/selection"
	urlpkg "github.com/mutagen-io/mutagen/pkg/url"

	"verif/internal/vk"
)

// ---- route (ii): the real Manager / controller with scripted endpoints -----

// scriptedEndpoint implements forwarding.Endpoint. Open hands out the queued
// connections in order; Shutdown unblocks a pending Open.
type scriptedEndpoint struct {
	name    string
	conns   chan net.Conn
	down    chan struct{}
	once    sync.Once
	opens   atomic.Int64
	downs   atomic.Int64
	pending atomic.Int64
	terr    chan error
}

func newScriptedEndpoint(name string) *scriptedEndpoint {
	return &scriptedEndpoint{name: name, conns: make(chan net.Conn, 256), down: make(chan struct{}), terr: make(chan error, 1)}
}

func (e *scriptedEndpoint) TransportErrors() <-chan error { return e.terr }

func (e *scriptedEndpoint) Open() (net.Conn, error) {
	// Hand out queued connections first, so that a Shutdown racing with a
	// non-empty queue is still deterministic enough to count.
	select {
	case c := <-e.conns:
		e.opens.Add(1)
		return c, nil
	default:
	}
	select {
	case c := <-e.conns:
		e.opens.Add(1)
		return c, nil
	case <-e.down:
		return nil, errors.New("scripted endpoint shut down")
	}
}

func (e *scriptedEndpoint) Shutdown() error {
	e.downs.Add(1)
	e.once.Do(func() { close(e.down) })
	return nil
}

// scriptedHandler replaces the handler of the local protocol inside the
// monitor process (as the repository's integration tests do with their
// netpipe protocol; a private protocol number would not survive
// Session.EnsureValid).
type scriptedHandler struct {
	mu        sync.Mutex
	endpoints map[string][]*scriptedEndpoint // by URL path: one endpoint per (re)connection, in order
	connects  map[string]int
}

var c33handler = &scriptedHandler{endpoints: map[string][]*scriptedEndpoint{}, connects: map[string]int{}}

func (h *scriptedHandler) Connect(_ context.Context, _ *logging.Logger, url *urlpkg.URL, _ string, _ string, _ forwarding.Version, _ *forwarding.Configuration, source bool) (forwarding.Endpoint, error) {
	h.mu.Lock()
	defer h.mu.Unlock()
	k := h.connects[url.Path]
	h.connects[url.Path]++
	es := h.endpoints[url.Path]
	if k >= len(es) {
		return nil, errors.New("no scripted endpoint (left) for " + url.Path)
	}
	return es[k], nil
}

func init() {
	// Registered before any goroutine of the monitor runs (the map "should
	// only be modified during init() operations").
	forwarding.ProtocolHandlers[urlpkg.Protocol_Local] = c33handler
}

type mgrCase struct {
	Index    int        `json:"session"`
	Links    []linkSpec `json:"links"`
	StayOpen int        `json:"stay_open_links"`
}

func runManagerCase(r *vk.Run, mgr *forwarding.Manager, mc mgrCase) (sig string, hang bool) {
	srcPath := fmt.Sprintf("tcp:localhost:%d", 20000+2*mc.Index)
	dstPath := fmt.Sprintf("tcp:localhost:%d", 20001+2*mc.Index)
	src, dst := newScriptedEndpoint("source"), newScriptedEndpoint("destination")
	c33handler.mu.Lock()
	c33handler.endpoints[srcPath], c33handler.endpoints[dstPath] = []*scriptedEndpoint{src}, []*scriptedEndpoint{dst}
	c33handler.mu.Unlock()

	fail := func(kind, what string, extra map[string]any) {
		w := map[string]any{"session": mc}
		for k, v := range extra {
			w[k] = v
		}
		r.Violation(map[string]string{"check": kind, "route": "manager"}, what, w)
	}

	ctx := context.Background()
	id, err := mgr.Create(ctx,
		&urlpkg.URL{Kind: urlpkg.Kind_Forwarding, Protocol: urlpkg.Protocol_Local, Path: srcPath},
		&urlpkg.URL{Kind: urlpkg.Kind_Forwarding, Protocol: urlpkg.Protocol_Local, Path: dstPath},
		&forwarding.Configuration{}, &forwarding.Configuration{}, &forwarding.Configuration{},
		fmt.Sprintf("verif%d", mc.Index), nil, false, "")
	if err != nil {
		r.Inconclusive("session-create-failed")
		fmt.Printf("session create failed: %v\n", err)
		return "", false
	}
	sel := &selection.Selection{Specifications: []string{id}}
	terminated := false
	terminate := func() bool {
		if terminated {
			return true
		}
		terminated = true
		done := make(chan struct{})
		go func() { mgr.Terminate(ctx, sel, ""); close(done) }()
		switch c33health.waitDone(done, hangBound) {
		case "ok":
			return true
		case "hang":
			fail("terminate-did-not-return", "Manager.Terminate did not return", nil)
		default:
			r.Inconclusive("scheduler-unhealthy")
		}
		return false
	}

	// Build the links and hand all of them out at once.
	links := make([]*link, len(mc.Links))
	for i, spec := range mc.Links {
		l, err := newLink(spec, uint64(1_000_000+mc.Index*1000+i), int64(mc.Index*1000+i))
		if err != nil {
			r.Inconclusive("socketpair-failed")
			for _, x := range links[:i] {
				x.closeOuter()
			}
			terminate()
			return "", false
		}
		links[i] = l
	}
	defer func() {
		for _, l := range links {
			l.closeOuter()
		}
	}()
	for _, l := range links {
		src.conns <- l.first // the connection accepted at the source
		dst.conns <- l.second
	}
	for _, l := range links {
		l.A.start()
		l.B.start()
	}

	lr := &linkReport{r: r, where: "manager", extra: map[string]any{"session": mc.Index}}
	// Self-ending and failing links: both wrappers get closed by the forwarder.
	var lo, hi [2]uint64           // [0] outbound = source->destination, [1] inbound
	var faultedDelivered [2]uint64 // bytes the peers of faulted connections received (part of lo)
	stay := 0
	for i, l := range links {
		s := l.Spec
		lr.extra["link"] = i
		selfEnding := s.clean() && s.aHalfCloses() && s.bHalfCloses()
		if s.clean() {
			lo[0], hi[0] = lo[0]+uint64(s.LA), hi[0]+uint64(s.LA)
			lo[1], hi[1] = lo[1]+uint64(s.LB), hi[1]+uint64(s.LB)
		} else {
			hi[0], hi[1] = hi[0]+uint64(s.LA), hi[1]+uint64(s.LB)
		}
		if s.clean() && !selfEnding {
			stay++
			if !l.settle(lr) {
				terminate()
				return "", true
			}
			continue
		}
		bothClosed := make(chan struct{})
		go func(l *link) { <-l.first.closed; <-l.second.closed; close(bothClosed) }(l)
		switch c33health.waitDone(bothClosed, hangBound+time.Duration((s.LA+s.LB)>>16)*time.Millisecond) {
		case "ok":
		case "hang":
			kind := "not-closed"
			if l.A.stuck.Load() != nil || l.B.stuck.Load() != nil {
				kind = "eof-not-forwarded"
			}
			lr.violate(l, kind, fmt.Sprintf("a forwarded connection was not closed (mode %s, fault %s@%d): Close calls first=%d second=%d", s.Mode, s.Fault, s.FaultAt, l.first.closes.Load(), l.second.closes.Load()))
			terminate()
			return "", true
		default:
			r.Inconclusive("scheduler-unhealthy")
			terminate()
			return "", true
		}
		if !s.clean() {
			// Sound lower bound for a faulted connection: every byte the
			// receiving peer read was returned as written by some Write call of
			// the forwarder, so (at quiescence) the totals include it - also the
			// prefix delivered by a write that then failed with n > 0.
			readers := make(chan struct{})
			go func(l *link) { <-l.A.readerDone; <-l.B.readerDone; close(readers) }(l)
			switch c33health.waitDone(readers, hangBound) {
			case "ok":
			case "hang":
				lr.violate(l, "not-closed", "both wrappers were closed but a peer is still blocked on its connection")
				terminate()
				return "", true
			default:
				r.Inconclusive("scheduler-unhealthy")
				terminate()
				return "", true
			}
			lo[0] += uint64(l.B.recv.Load()) // source -> destination: what the destination's peer read
			lo[1] += uint64(l.A.recv.Load())
			faultedDelivered[0] += uint64(l.B.recv.Load())
			faultedDelivered[1] += uint64(l.A.recv.Load())
			if l.first.partialN.Load()+l.second.partialN.Load() > 0 {
				r.Count("manager_partial_writes_delivering_a_prefix", 1)
			}
		}
	}

	// Statistics, read through the public listing (long-poll on the state index).
	var last *forwarding.State
	var prevIndex uint64
	okState := func(st *forwarding.State) bool {
		return st.OpenConnections == uint64(stay) && st.TotalConnections == uint64(len(links)) &&
			st.TotalOutboundData >= lo[0] && st.TotalOutboundData <= hi[0] &&
			st.TotalInboundData >= lo[1] && st.TotalInboundData <= hi[1]
	}
	overshoot := func(st *forwarding.State) bool {
		return st.TotalConnections > uint64(len(links)) || st.TotalOutboundData > hi[0] || st.TotalInboundData > hi[1]
	}
	listErr := ""
	cond := func() bool {
		lctx, cancel := context.WithTimeout(ctx, 20*time.Millisecond)
		defer cancel()
		idx, states, err := mgr.List(lctx, sel, prevIndex)
		if err != nil {
			if errors.Is(err, context.Canceled) || errors.Is(err, context.DeadlineExceeded) {
				prevIndex = 0 // nothing changed within the poll period: take a plain snapshot next
				return false
			}
			listErr = err.Error()
			return true
		}
		prevIndex = idx
		if len(states) != 1 {
			listErr = fmt.Sprintf("%d states listed", len(states))
			return true
		}
		last = states[0]
		return okState(last) || overshoot(last)
	}
	res := c33health.waitCond(cond, hangBound)
	if res == "unhealthy" {
		r.Inconclusive("scheduler-unhealthy")
		terminate()
		return "", true
	}
	stateDesc := func() map[string]any {
		if last == nil {
			return map[string]any{"list_error": listErr}
		}
		return map[string]any{"list_error": listErr, "status": last.Status.String(), "last_error": last.LastError, "open": last.OpenConnections, "total": last.TotalConnections, "outbound": last.TotalOutboundData, "inbound": last.TotalInboundData,
			"expected_open": stay, "expected_total": len(links), "expected_outbound": []uint64{lo[0], hi[0]}, "expected_inbound": []uint64{lo[1], hi[1]}, "handed_out_source": src.opens.Load(), "handed_out_destination": dst.opens.Load(), "received_by_peers_of_faulted_connections": []uint64{faultedDelivered[0], faultedDelivered[1]}}
	}
	if listErr != "" || last == nil || !okState(last) {
		kind := "statistics-mismatch"
		if last != nil && listErr == "" {
			switch {
			case last.TotalConnections != uint64(len(links)):
				kind = "total-connections-mismatch"
			case last.TotalOutboundData == hi[1] && last.TotalInboundData == hi[0] && hi[0] != hi[1]:
				kind = "data-directions-swapped"
			case faultedDelivered[0]+faultedDelivered[1] > 0 && last.TotalOutboundData <= hi[0] && last.TotalInboundData <= hi[1] &&
				(last.TotalOutboundData < lo[0] || last.TotalInboundData < lo[1]) &&
				last.TotalOutboundData >= lo[0]-faultedDelivered[0] && last.TotalInboundData >= lo[1]-faultedDelivered[1]:
				kind = "totals-below-delivered" // only the bytes delivered on faulted connections are missing
			case last.TotalOutboundData < lo[0] || last.TotalOutboundData > hi[0] || last.TotalInboundData < lo[1] || last.TotalInboundData > hi[1]:
				kind = "data-totals-mismatch"
			case last.OpenConnections != uint64(stay):
				kind = "open-connections-mismatch"
			}
		}
		fail(kind, fmt.Sprintf("session state does not match the connections handed out and the bytes moved: %v", stateDesc()), stateDesc())
		terminate()
		return "", true
	}
	if src.opens.Load() != int64(len(links)) || dst.opens.Load() != int64(len(links)) {
		fail("total-connections-mismatch", "endpoint Open counts differ from the number of connections queued", stateDesc())
	}
	if faultedDelivered[0]+faultedDelivered[1] > 0 {
		r.Count("manager_lower_bound_bytes_from_faulted_connections", int64(faultedDelivered[0]+faultedDelivered[1]))
	}
	r.Count("manager_connections", int64(len(links)))
	r.Count("manager_bytes_outbound_audited", int64(last.TotalOutboundData))
	r.Count("manager_bytes_inbound_audited", int64(last.TotalInboundData))

	// Terminating the session cancels forwarding: the connections that were
	// still open get closed.
	if !terminate() {
		return "", true
	}
	for i, l := range links {
		lr.extra["link"] = i
		bothClosed := make(chan struct{})
		go func(l *link) { <-l.first.closed; <-l.second.closed; close(bothClosed) }(l)
		switch c33health.waitDone(bothClosed, hangBound) {
		case "ok":
		case "hang":
			lr.violate(l, "not-closed", fmt.Sprintf("the session was terminated but a forwarded connection that was still open was not closed: Close calls first=%d second=%d", l.first.closes.Load(), l.second.closes.Load()))
			return "", true
		default:
			r.Inconclusive("scheduler-unhealthy")
			return "", true
		}
		done := make(chan struct{})
		go func(l *link) { <-l.A.readerDone; <-l.B.readerDone; <-l.A.writerDone; <-l.B.writerDone; close(done) }(l)
		if c33health.waitDone(done, hangBound) != "ok" {
			lr.violate(l, "not-closed", "a peer is still blocked on its connection after the forwarder closed its end")
			return "", true
		}
		l.verifyData(lr, l.Spec.clean())
	}
	if src.downs.Load() < 1 || dst.downs.Load() < 1 {
		fail("endpoint-not-shut-down", fmt.Sprintf("after Terminate the endpoints saw Shutdown calls source=%d destination=%d", src.downs.Load(), dst.downs.Load()), nil)
	}
	faults := 0
	for _, s := range mc.Links {
		if !s.clean() {
			faults++
		}
	}
	nb := 0
	switch {
	case len(links) >= 33:
		nb = 3
	case len(links) >= 9:
		nb = 2
	case len(links) >= 2:
		nb = 1
	}
	return fmt.Sprintf("manager|n%d|faults=%d|stay=%d", nb, minInt(faults, 2), minInt(stay, 2)), false
}

func minInt(a, b int) int {
	if a < b {
		return a
	}
	return b
}

func c33Manager(r *vk.Run) {
	// The manager keeps its sessions below MUTAGEN_DATA_DIRECTORY.
	if os.Getenv("MUTAGEN_DATA_DIRECTORY") == "" {
		os.Setenv("MUTAGEN_DATA_DIRECTORY", filepath.Join(r.Scratch(), "mutagen-data"))
	}
	os.MkdirAll(os.Getenv("MUTAGEN_DATA_DIRECTORY"), 0o700)
	mgr, err := forwarding.NewManager(logging.NewLogger(logging.LevelDisabled, io.Discard))
	if err != nil {
		fmt.Printf("ERROR: cannot create forwarding manager: %v\n", err)
		r.Inconclusive("manager-create-failed")
		return
	}
	n := r.Pick(12, 300)
	rng := r.Rand("manager")
	nfd := r.Pick(2, 12)
	cases := make(chan mgrCase, n+nfd)
	for i := 0; i < nfd; i++ {
		// sessions whose connections all stream several MiB in both directions at once
		mc := mgrCase{Index: 5000 + i}
		for k := 0; k < 2+i%2; k++ {
			mc.Links = append(mc.Links, fullDuplexLink(rng, r.Quick()))
		}
		cases <- mc
	}
	for i := 0; i < n; i++ {
		mc := mgrCase{Index: i}
		nl := 1 + rng.Intn(64)
		if i%4 == 0 {
			nl = []int{1, 64, 2, 33}[(i/4)%4]
		}
		onlyClean := rng.Intn(2) == 0
		for k := 0; k < nl; k++ {
			modes := []string{"concurrent", "concurrent", "A-then-B", "B-then-A", "A-only", "B-only", "none"}
			faults := []string{"none", "none", "none", "none", "none", "first-read-error", "first-write-error", "second-read-error", "second-write-error", "first-partial-write", "second-partial-write", "second-partial-write", "A-abort", "B-abort"}
			if onlyClean {
				faults = []string{"none"}
			}
			spec := genLink(rng, modes, faults, !r.Quick() && rng.Intn(8) == 0)
			if r.Quick() && nl > 16 && spec.LA+spec.LB > 256<<10 {
				spec = genLink(rng, modes, faults, false)
			}
			// A link that stays open cannot use a failing wrapper to end; keep "stay open" fault-free.
			if !spec.clean() && !(spec.aHalfCloses() && spec.bHalfCloses()) {
				spec.Mode = "concurrent"
				spec.SplitAt = 0
			}
			if spec.clean() && !(spec.aHalfCloses() && spec.bHalfCloses()) {
				mc.StayOpen++
			}
			mc.Links = append(mc.Links, spec)
		}
		cases <- mc
	}
	close(cases)
	var wg sync.WaitGroup
	var hangs, sampled atomic.Int64
	for w := 0; w < 3; w++ {
		wg.Add(1)
		go func() {
			defer wg.Done()
			for mc := range cases {
				if hangs.Load() >= 1 {
					return
				}
				fmt.Printf("manager %s\n", vk.JSON(mc))
				var sig string
				var hang bool
				r.Guard(mc, func() { sig, hang = runManagerCase(r, mgr, mc) })
				r.Eval(1)
				r.Count("manager_sessions", 1)
				if hang {
					hangs.Add(1)
					continue
				}
				if sig != "" {
					r.Distinct(sig)
				}
				if len(mc.Links) <= 3 && sampled.Add(1) <= 2 {
					r.Sample(mc)
				}
			}
		}()
	}
	wg.Wait()
	if hangs.Load() == 0 {
		c33Reconnects(r, mgr)
	}
	done := make(chan struct{})
	go func() { mgr.Shutdown(); close(done) }()
	if c33health.waitDone(done, hangBound) == "hang" {
		r.Violation(map[string]string{"check": "shutdown-did-not-return", "route": "manager"}, "Manager.Shutdown did not return", nil)
	}
}
