package main

import (
	"context"
	"errors"
	"fmt"
	"math/rand"
	"time"

	"github.com/mutagen-io/mutagen/pkg/forwarding"
	"github.com/mutagen-io/mutagen/pkg/selection"
	urlpkg "github.com/mutagen-io/mutagen/pkg/url"

	"verif/internal/vk"
)

// ---------------------------------------------------------------------------
// C33 route (ii), reconnection: the forwarding loop of a session is torn down
// (transport failure of the source or destination endpoint, or pause+resume)
// WHILE connections are still open. The controller reconnects and starts a
// new loop with a new state; the connections of the old loop are still being
// closed at that time (their Close is held by the harness) and finish later.
// Afterwards the open-connection count of the session must be exactly the
// number of connections that are open (0 when all are done, never wrapped
// around) and the totals never move backwards.
// ---------------------------------------------------------------------------

type reconnectCase struct {
	Index    int        `json:"session"`
	Trigger  string     `json:"trigger"` // source-transport-error | destination-transport-error | pause-resume
	Gen1Stay []linkSpec `json:"first_loop_links_open_at_the_failure"`
	Gen1Done []linkSpec `json:"first_loop_links_finished_before"`
	Gen2     []linkSpec `json:"second_loop_links"`
}

type stateSnap struct {
	Status   string `json:"status"`
	Open     uint64 `json:"open"`
	Total    uint64 `json:"total"`
	Outbound uint64 `json:"outbound"`
	Inbound  uint64 `json:"inbound"`
	Phase    string `json:"phase"`
}

func snapOf(st *forwarding.State, phase string) stateSnap {
	return stateSnap{st.Status.String(), st.OpenConnections, st.TotalConnections, st.TotalOutboundData, st.TotalInboundData, phase}
}

func genReconnect(rng *rand.Rand, index int) reconnectCase {
	rc := reconnectCase{Index: index, Trigger: []string{"source-transport-error", "destination-transport-error", "pause-resume"}[index%3]}
	small := func(modes []string) linkSpec {
		s := genLink(rng, modes, []string{"none"}, false)
		if s.LA+s.LB > 300<<10 {
			s.LA, s.LB, s.SplitAt = s.LA%(100<<10), s.LB%(100<<10), 0
		}
		return s
	}
	stayModes := []string{"A-only", "B-only", "none"}
	doneModes := []string{"concurrent", "A-then-B", "B-then-A"}
	for k := 1 + rng.Intn(6); k > 0; k-- {
		rc.Gen1Stay = append(rc.Gen1Stay, small(stayModes))
	}
	for k := rng.Intn(4); k > 0; k-- {
		rc.Gen1Done = append(rc.Gen1Done, small(doneModes))
	}
	for k := rng.Intn(5); k > 0; k-- {
		rc.Gen2 = append(rc.Gen2, small(append(doneModes, "concurrent", "none")))
	}
	return rc
}

func runReconnectCase(r *vk.Run, mgr *forwarding.Manager, rc reconnectCase) (sig string, hang bool) {
	srcPath := fmt.Sprintf("tcp:localhost:%d", 40000+2*rc.Index)
	dstPath := fmt.Sprintf("tcp:localhost:%d", 40001+2*rc.Index)
	src1, dst1 := newScriptedEndpoint("source#1"), newScriptedEndpoint("destination#1")
	src2, dst2 := newScriptedEndpoint("source#2"), newScriptedEndpoint("destination#2")
	c33handler.mu.Lock()
	c33handler.endpoints[srcPath] = []*scriptedEndpoint{src1, src2}
	c33handler.endpoints[dstPath] = []*scriptedEndpoint{dst1, dst2}
	c33handler.mu.Unlock()
	connects := func() (int, int) {
		c33handler.mu.Lock()
		defer c33handler.mu.Unlock()
		return c33handler.connects[srcPath], c33handler.connects[dstPath]
	}
	var snaps []stateSnap
	fail := func(kind, what string) {
		r.Violation(map[string]string{"check": kind, "route": "manager-reconnect", "trigger": rc.Trigger}, what, map[string]any{"session": rc, "snapshots": snaps})
	}

	ctx := context.Background()
	id, err := mgr.Create(ctx,
		&urlpkg.URL{Kind: urlpkg.Kind_Forwarding, Protocol: urlpkg.Protocol_Local, Path: srcPath},
		&urlpkg.URL{Kind: urlpkg.Kind_Forwarding, Protocol: urlpkg.Protocol_Local, Path: dstPath},
		&forwarding.Configuration{}, &forwarding.Configuration{}, &forwarding.Configuration{},
		fmt.Sprintf("verifre%d", rc.Index), nil, false, "")
	if err != nil {
		r.Inconclusive("session-create-failed")
		fmt.Printf("session create failed: %v\n", err)
		return "", false
	}
	sel := &selection.Selection{Specifications: []string{id}}
	gate := make(chan struct{})
	gateOpen := false
	openGate := func() {
		if !gateOpen {
			gateOpen = true
			close(gate)
		}
	}
	var all []*link
	terminated := false
	terminate := func() bool {
		openGate()
		if terminated {
			return true
		}
		terminated = true
		done := make(chan struct{})
		go func() { mgr.Terminate(ctx, sel, ""); close(done) }()
		switch c33health.waitDone(done, hangBound) {
		case "ok":
			return true
		case "hang":
			fail("terminate-did-not-return", "Manager.Terminate did not return")
		default:
			r.Inconclusive("scheduler-unhealthy")
		}
		return false
	}
	defer func() {
		openGate()
		for _, l := range all {
			l.closeOuter()
		}
	}()
	abort := func() (string, bool) { terminate(); return "", true }

	mk := func(specs []linkSpec, base int, gated bool) ([]*link, bool) {
		var ls []*link
		for i, spec := range specs {
			l, err := newLink(spec, uint64(5_000_000+rc.Index*1000+base+i), int64(rc.Index*1000+base+i))
			if err != nil {
				r.Inconclusive("socketpair-failed")
				return nil, false
			}
			if gated {
				l.first.closeGate, l.second.closeGate = gate, gate
			}
			ls = append(ls, l)
			all = append(all, l)
		}
		return ls, true
	}
	stay1, ok1 := mk(rc.Gen1Stay, 0, true)
	done1, ok2 := mk(rc.Gen1Done, 100, false)
	gen2, ok3 := mk(rc.Gen2, 200, false)
	if !ok1 || !ok2 || !ok3 {
		terminate()
		return "", false
	}
	lr := &linkReport{r: r, where: "manager-reconnect", extra: map[string]any{"session": rc.Index, "trigger": rc.Trigger}}

	hand := func(ls []*link, s, d *scriptedEndpoint) {
		for _, l := range ls {
			s.conns <- l.first
			d.conns <- l.second
		}
		for _, l := range ls {
			l.A.start()
			l.B.start()
		}
	}
	// waitLinks: self-ending links get closed by the forwarder, the others settle.
	waitLinks := func(ls []*link) bool {
		for _, l := range ls {
			s := l.Spec
			if s.aHalfCloses() && s.bHalfCloses() {
				both := make(chan struct{})
				go func(l *link) { <-l.first.closed; <-l.second.closed; close(both) }(l)
				switch c33health.waitDone(both, hangBound+time.Duration((s.LA+s.LB)>>16)*time.Millisecond) {
				case "ok":
				case "hang":
					lr.violate(l, "not-closed", "a forwarded connection whose two directions finished was not closed")
					return false
				default:
					r.Inconclusive("scheduler-unhealthy")
					return false
				}
			} else if !l.settle(lr) {
				return false
			}
		}
		return true
	}
	// poll lists the session until pred holds (bounded); every snapshot is journaled.
	var last *forwarding.State
	// preSrc/preDst: the handler's connect counts read BEFORE the snapshot was
	// taken. The controller replaces its state before it reconnects, so a
	// snapshot taken after both second connects were seen shows the new loop's
	// state (reading the counts after the snapshot would allow a stale one).
	var preSrc, preDst int
	poll := func(phase string, pred func(*forwarding.State) bool) string {
		return c33health.waitCond(func() bool {
			preSrc, preDst = connects()
			lctx, cancel := context.WithTimeout(ctx, 20*time.Millisecond)
			defer cancel()
			_, states, err := mgr.List(lctx, sel, 0)
			if err != nil || len(states) != 1 {
				return false
			}
			last = states[0]
			if len(snaps) < 400 {
				snaps = append(snaps, snapOf(last, phase))
			}
			return pred(last)
		}, hangBound)
	}
	sum := func(ls []*link) (out, in uint64) {
		for _, l := range ls {
			out += uint64(l.Spec.LA)
			in += uint64(l.Spec.LB)
		}
		return
	}

	// ---- first loop --------------------------------------------------------
	hand(append(append([]*link{}, stay1...), done1...), src1, dst1)
	if !waitLinks(stay1) || !waitLinks(done1) {
		return abort()
	}
	o1s, i1s := sum(stay1)
	o1d, i1d := sum(done1)
	k1 := uint64(len(stay1) + len(done1))
	switch poll("first-loop", func(st *forwarding.State) bool {
		return st.OpenConnections == uint64(len(stay1)) && st.TotalConnections == k1 && st.TotalOutboundData == o1s+o1d && st.TotalInboundData == i1s+i1d
	}) {
	case "ok":
	case "hang":
		fail("statistics-mismatch", fmt.Sprintf("first loop: state %+v does not match %d open of %d connections, %d/%d bytes", snaps[len(snaps)-1], len(stay1), k1, o1s+o1d, i1s+i1d))
		return abort()
	default:
		r.Inconclusive("scheduler-unhealthy")
		return abort()
	}

	// ---- tear the loop down while stay1 are open ---------------------------
	switch rc.Trigger {
	case "source-transport-error":
		src1.terr <- errors.New("scripted source transport failure")
	case "destination-transport-error":
		dst1.terr <- errors.New("scripted destination transport failure")
	case "pause-resume":
		done := make(chan struct{})
		var perr, rerr error
		go func() {
			perr = mgr.Pause(ctx, sel, "")
			rerr = mgr.Resume(ctx, sel, "")
			close(done)
		}()
		if res := c33health.waitDone(done, hangBound); res != "ok" {
			if res == "hang" {
				fail("pause-resume-did-not-return", "Manager.Pause/Resume did not return while connections were being closed")
			} else {
				r.Inconclusive("scheduler-unhealthy")
			}
			return abort()
		}
		if perr != nil || rerr != nil {
			fail("pause-resume-failed", fmt.Sprintf("Pause: %v, Resume: %v", perr, rerr))
			return abort()
		}
	}
	// The old connections are being closed (Close called, held by the harness) ...
	closing := make(chan struct{})
	go func() {
		for _, l := range stay1 {
			<-l.first.closed
		}
		close(closing)
	}()
	switch c33health.waitDone(closing, hangBound) {
	case "ok":
	case "hang":
		lr.violate(stay1[0], "not-closed", "the forwarding loop was torn down ("+rc.Trigger+") but a connection that was open was not closed")
		return abort()
	default:
		r.Inconclusive("scheduler-unhealthy")
		return abort()
	}
	// ... and the controller has a new loop on new endpoints.
	k2 := uint64(len(gen2))
	kAll := k1 + k2
	switch poll("reconnected", func(st *forwarding.State) bool {
		return preSrc >= 2 && preDst >= 2 && st.Status == forwarding.Status_ForwardingConnections
	}) {
	case "ok":
	case "hang":
		cs, cd := connects()
		fail("did-not-reconnect", fmt.Sprintf("after %s the session did not come back to forwarding: connects source=%d destination=%d, state %+v", rc.Trigger, cs, cd, snaps[len(snaps)-1]))
		return abort()
	default:
		r.Inconclusive("scheduler-unhealthy")
		return abort()
	}
	reconnectedAt := len(snaps) - 1

	// ---- second loop -------------------------------------------------------
	hand(gen2, src2, dst2)
	if !waitLinks(gen2) {
		return abort()
	}
	stay2 := 0
	for _, l := range gen2 {
		if !(l.Spec.aHalfCloses() && l.Spec.bHalfCloses()) {
			stay2++
		}
	}
	o2, i2 := sum(gen2)
	// While the old connections are still closing, anything between "only the
	// new loop's connections" and "old and new together" is accepted.
	within := func(st *forwarding.State) bool {
		return st.OpenConnections >= uint64(stay2) && st.OpenConnections <= uint64(stay2+len(stay1)) &&
			st.TotalConnections >= k2 && st.TotalConnections <= kAll &&
			st.TotalOutboundData >= o2 && st.TotalOutboundData <= o2+o1s+o1d &&
			st.TotalInboundData >= i2 && st.TotalInboundData <= i2+i1s+i1d
	}
	switch poll("second-loop", within) {
	case "ok":
	case "hang":
		fail("statistics-mismatch", fmt.Sprintf("second loop: state %+v; expected open in [%d,%d], total in [%d,%d], outbound in [%d,%d], inbound in [%d,%d]", snaps[len(snaps)-1], stay2, stay2+len(stay1), k2, kAll, o2, o2+o1s+o1d, i2, i2+i1s+i1d))
		return abort()
	default:
		r.Inconclusive("scheduler-unhealthy")
		return abort()
	}

	// ---- now the old connections finish closing ----------------------------
	openGate()
	oldDone := make(chan struct{})
	go func() {
		for _, l := range stay1 {
			<-l.second.closed
			<-l.A.readerDone
			<-l.B.readerDone
			<-l.A.writerDone
			<-l.B.writerDone
		}
		close(oldDone)
	}()
	switch c33health.waitDone(oldDone, hangBound) {
	case "ok":
	case "hang":
		lr.violate(stay1[0], "not-closed", "a connection of the torn-down loop was not closed on both sides")
		return abort()
	default:
		r.Inconclusive("scheduler-unhealthy")
		return abort()
	}
	// Let the state become quiet (no change notification for 30 ms), then look.
	var prev uint64
	for i := 0; i < 60; i++ {
		lctx, cancel := context.WithTimeout(ctx, 30*time.Millisecond)
		idx, states, err := mgr.List(lctx, sel, prev)
		cancel()
		if err != nil {
			break
		}
		prev = idx
		if len(states) == 1 {
			last = states[0]
			snaps = append(snaps, snapOf(last, "old-connections-finished"))
		}
	}
	switch poll("final", func(st *forwarding.State) bool { return st.OpenConnections == uint64(stay2) }) {
	case "ok":
	case "hang":
		kind := "open-connections-mismatch"
		if last != nil && last.OpenConnections > kAll {
			kind = "open-connections-wrapped"
		}
		fail(kind, fmt.Sprintf("after every connection of the torn-down loop was closed the session reports %d open connections; %d are open", last.OpenConnections, stay2))
		return abort()
	default:
		r.Inconclusive("scheduler-unhealthy")
		return abort()
	}
	// Over all snapshots since the reconnection: never more open connections
	// than exist, totals never decrease.
	for i := reconnectedAt; i < len(snaps); i++ {
		s := snaps[i]
		if s.Open > kAll {
			fail("open-connections-wrapped", fmt.Sprintf("snapshot %d (%s): %d open connections reported, only %d connections were ever handed out", i, s.Phase, s.Open, kAll))
			break
		}
		if i > reconnectedAt {
			p := snaps[i-1]
			if s.Total < p.Total || s.Outbound < p.Outbound || s.Inbound < p.Inbound {
				fail("totals-decreased", fmt.Sprintf("snapshot %d (%s) %+v after %+v: a total moved backwards within one forwarding loop", i, s.Phase, s, p))
				break
			}
		}
		if s.Total > kAll || s.Outbound > o2+o1s+o1d || s.Inbound > i2+i1s+i1d {
			fail("data-totals-mismatch", fmt.Sprintf("snapshot %d (%s) %+v exceeds what was handed out and sent", i, s.Phase, s))
			break
		}
	}
	r.Count("reconnect_sessions", 1)
	r.Count("reconnect_old_connections_closed_late", int64(len(stay1)))
	r.Count("reconnect_snapshots", int64(len(snaps)-reconnectedAt))

	if !terminate() {
		return "", true
	}
	for _, l := range all {
		both := make(chan struct{})
		go func(l *link) {
			<-l.first.closed
			<-l.second.closed
			<-l.A.readerDone
			<-l.B.readerDone
			<-l.A.writerDone
			<-l.B.writerDone
			close(both)
		}(l)
		if res := c33health.waitDone(both, hangBound); res != "ok" {
			if res == "hang" {
				lr.violate(l, "not-closed", "the session was terminated but a connection was not closed")
			} else {
				r.Inconclusive("scheduler-unhealthy")
			}
			return "", true
		}
		l.verifyData(lr, true)
	}
	return fmt.Sprintf("reconnect|%s|stay1=%d|done1=%d|gen2=%d|stay2=%d", rc.Trigger, minInt(len(stay1), 3), minInt(len(done1), 2), minInt(len(gen2), 2), minInt(stay2, 2)), false
}

func c33Reconnects(r *vk.Run, mgr *forwarding.Manager) {
	n := r.Pick(12, 240)
	rng := r.Rand("reconnect")
	sampled := 0
	for i := 0; i < n; i++ {
		rc := genReconnect(rng, i)
		fmt.Printf("reconnect %s\n", vk.JSON(rc))
		var sig string
		var hang bool
		r.Guard(rc, func() { sig, hang = runReconnectCase(r, mgr, rc) })
		r.Eval(1)
		if hang {
			return
		}
		if sig != "" {
			r.Distinct(sig)
		}
		if sampled < 1 {
			sampled++
			r.Sample(rc)
		}
	}
}
