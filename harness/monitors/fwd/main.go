// Monitor group fwd: connection forwarding (C33, -race) and agent/version
// handshakes (C34, no race detector). The same source compiles both ways.
package main

import (
	"sync"
	"sync/atomic"
	"time"

	"verif/internal/vk"
)

func main() {
	vk.Main("fwd", map[string]func(){
		"C33": c33,
		"C34": c34,
	})
}

// health is the control of the control-relative watchdog (DESIGN §1, I5): a
// heartbeat goroutine that records when the scheduler failed to run it for a
// second or more. "Did not return" is a violation only if the generous bound
// has elapsed while the heartbeat stayed healthy.
type health struct {
	base     time.Time
	lastTick atomic.Int64 // ns since base of the last heartbeat
	lastBad  atomic.Int64 // ns since base of the last heartbeat gap >= 1 s (0 = never)
	maxGap   atomic.Int64
}

const (
	hangBound    = 12 * time.Second // never below 10 s
	unhealthyGap = int64(time.Second)
)

func startHealth() *health {
	h := &health{base: time.Now()}
	h.lastTick.Store(1)
	go func() {
		last := h.now()
		for {
			time.Sleep(5 * time.Millisecond)
			n := h.now()
			gap := n - last
			if gap > h.maxGap.Load() {
				h.maxGap.Store(gap)
			}
			if gap >= unhealthyGap {
				h.lastBad.Store(n)
			}
			h.lastTick.Store(n)
			last = n
		}
	}()
	return h
}

func (h *health) now() int64 { return int64(time.Since(h.base)) + 1 }

// healthySince reports whether the heartbeat ran without a gap >= 1 s during
// the whole window [since, now].
func (h *health) healthySince(since int64) bool {
	n := h.now()
	if n-h.lastTick.Load() >= unhealthyGap {
		return false
	}
	return h.lastBad.Load() < since
}

// waitDone waits for ch to be closed. Result: "ok"; "hang" = the bound elapsed
// while the scheduler was healthy for the whole window; "unhealthy" = three
// windows elapsed and none of them was healthy (inconclusive).
func (h *health) waitDone(ch <-chan struct{}, bound time.Duration) string {
	for round := 0; round < 3; round++ {
		since := h.now()
		t := time.NewTimer(bound)
		select {
		case <-ch:
			t.Stop()
			return "ok"
		case <-t.C:
		}
		if h.healthySince(since) {
			// One last look: the event may have happened right at the bound.
			select {
			case <-ch:
				return "ok"
			default:
			}
			return "hang"
		}
	}
	return "unhealthy"
}

// waitCond polls cond until it holds, with the same three-valued result.
func (h *health) waitCond(cond func() bool, bound time.Duration) string {
	for round := 0; round < 3; round++ {
		since := h.now()
		deadline := time.Now().Add(bound)
		sleep := 20 * time.Microsecond
		for time.Now().Before(deadline) {
			if cond() {
				return "ok"
			}
			time.Sleep(sleep)
			if sleep < 2*time.Millisecond {
				sleep *= 2
			}
		}
		if cond() {
			return "ok"
		}
		if h.healthySince(since) {
			return "hang"
		}
	}
	return "unhealthy"
}

// wgChan turns a WaitGroup into a channel closed when it is done.
func wgChan(wg *sync.WaitGroup) <-chan struct{} {
	ch := make(chan struct{})
	go func() { wg.Wait(); close(ch) }()
	return ch
}
