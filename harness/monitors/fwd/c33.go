package main

import (
	"bytes"
	"context"
	"encoding/binary"
	"errors"
	"fmt"
	"io"
	"math/rand"
	"net"
	"os"
	"sync"
	"sync/atomic"
	"syscall"
	"time"

	"github.com/mutagen-io/mutagen/pkg/forwarding"

	"verif/internal/vk"
)

// ---------------------------------------------------------------------------
// C33: forwarded connections relay both directions exactly.
//
// Topology of one forwarded connection:
//
//   peer A  <== unix socket pair ==>  [first]  ForwardAndClose  [second]  <== unix socket pair ==>  peer B
//
// [first]/[second] are journaling net.Conn wrappers (with CloseWrite) around
// the inner ends of the two socket pairs; the harness plays peers A and B on
// the outer ends. A sends a position-derived pattern that is unique to
// (case, connection, direction), so the reader can tell loss, duplication,
// reordering and cross-talk from the bytes alone.
// ---------------------------------------------------------------------------

var c33health *health

func mix64(x uint64) uint64 {
	x += 0x9E3779B97F4A7C15
	x = (x ^ (x >> 30)) * 0xBF58476D1CE4E5B9
	x = (x ^ (x >> 27)) * 0x94D049BB133111EB
	return x ^ (x >> 31)
}

// fillPattern writes the bytes of stream `salt` at offsets off.. into buf.
// Byte o of a stream is byte (o mod 8) of the little-endian word
// mix64(salt ^ (o/8)*prime).
func fillPattern(salt uint64, off int64, buf []byte) {
	i := 0
	word := func(o int64) uint64 { return mix64(salt ^ uint64(o>>3)*0x100000001B3) }
	// unaligned head
	for i < len(buf) && (off+int64(i))&7 != 0 {
		o := off + int64(i)
		buf[i] = byte(word(o) >> (8 * uint(o&7)))
		i++
	}
	for ; i+8 <= len(buf); i += 8 {
		binary.LittleEndian.PutUint64(buf[i:], word(off+int64(i)))
	}
	for ; i < len(buf); i++ {
		o := off + int64(i)
		buf[i] = byte(word(o) >> (8 * uint(o&7)))
	}
}

// checkPattern returns the index of the first byte of buf that is not the
// pattern byte for its offset, or -1.
func checkPattern(salt uint64, off int64, buf []byte, scratch []byte) int {
	scratch = scratch[:len(buf)]
	fillPattern(salt, off, scratch)
	if bytes.Equal(buf, scratch) {
		return -1
	}
	for i := range buf {
		if buf[i] != scratch[i] {
			return i
		}
	}
	return -1
}

func socketPair() (*net.UnixConn, *net.UnixConn, error) {
	fds, err := syscall.Socketpair(syscall.AF_UNIX, syscall.SOCK_STREAM|syscall.SOCK_CLOEXEC, 0)
	if err != nil {
		return nil, nil, err
	}
	var out [2]*net.UnixConn
	for i, fd := range fds {
		f := os.NewFile(uintptr(fd), fmt.Sprintf("socketpair-%d", i))
		c, err := net.FileConn(f)
		f.Close()
		if err != nil {
			return nil, nil, err
		}
		out[i] = c.(*net.UnixConn)
	}
	return out[0], out[1], nil
}

var errInjected = errors.New("verif: injected connection failure")

// jconn is the journaling wrapper handed to the code under test. It exposes
// net.Conn and CloseWrite only (no ReadFrom/WriteTo shortcuts).
type jconn struct {
	net.Conn
	inner       *net.UnixConn
	name        string
	clock       *atomic.Int64
	readN       atomic.Int64
	writeN      atomic.Int64
	failReadAt  int64 // -1: never
	failWriteAt int64 // -1: never
	// failWriteCall k > 0: the k-th Write call delivers a prefix of its buffer
	// to the peer and returns (n > 0, error) - a failure in the middle of a write.
	failWriteCall int64
	writeCalls    atomic.Int64
	partialN      atomic.Int64 // bytes delivered by the partially failed write
	faultHit      atomic.Int64
	closes        atomic.Int32
	closeWrites   atomic.Int32
	closeTick     atomic.Int64
	cwTick        atomic.Int64
	closed        chan struct{}
	closeOnce     sync.Once
	// closeGate, if set, makes Close return only once the harness opened the
	// gate (a connection whose teardown takes a while); the call itself is
	// journaled at once.
	closeGate chan struct{}
}

func newJconn(inner *net.UnixConn, name string, clock *atomic.Int64) *jconn {
	return &jconn{Conn: inner, inner: inner, name: name, clock: clock, failReadAt: -1, failWriteAt: -1, closed: make(chan struct{})}
}

func (c *jconn) Read(p []byte) (int, error) {
	if c.failReadAt >= 0 {
		rem := c.failReadAt - c.readN.Load()
		if rem <= 0 {
			c.faultHit.CompareAndSwap(0, c.clock.Add(1))
			return 0, errInjected
		}
		if int64(len(p)) > rem {
			p = p[:rem]
		}
	}
	n, err := c.Conn.Read(p)
	c.readN.Add(int64(n))
	return n, err
}

func (c *jconn) Write(p []byte) (int, error) {
	if k := c.writeCalls.Add(1); c.failWriteCall > 0 && k >= c.failWriteCall && len(p) > 0 {
		if k > c.failWriteCall {
			return 0, errInjected // the connection stays failed
		}
		half := len(p) / 2
		if half == 0 {
			half = 1
		}
		n, _ := c.Conn.Write(p[:half])
		c.writeN.Add(int64(n))
		c.partialN.Store(int64(n))
		c.faultHit.CompareAndSwap(0, c.clock.Add(1))
		return n, errInjected
	}
	if c.failWriteAt >= 0 {
		rem := c.failWriteAt - c.writeN.Load()
		if rem < int64(len(p)) {
			n := 0
			if rem > 0 {
				n, _ = c.Conn.Write(p[:rem])
				c.writeN.Add(int64(n))
			}
			c.faultHit.CompareAndSwap(0, c.clock.Add(1))
			return n, errInjected
		}
	}
	n, err := c.Conn.Write(p)
	c.writeN.Add(int64(n))
	return n, err
}

func (c *jconn) CloseWrite() error {
	c.closeWrites.Add(1)
	c.cwTick.CompareAndSwap(0, c.clock.Add(1))
	return c.inner.CloseWrite()
}

func (c *jconn) Close() error {
	c.closes.Add(1)
	c.closeTick.CompareAndSwap(0, c.clock.Add(1))
	c.closeOnce.Do(func() { close(c.closed) })
	if c.closeGate != nil {
		select {
		case <-c.closeGate:
		case <-time.After(2*hangBound + 10*time.Second): // the harness never keeps the code under test stuck for good
		}
	}
	return c.Conn.Close()
}

// peerPlan scripts one outer end.
type peerPlan struct {
	Len       int64 // bytes to send
	HalfClose bool  // CloseWrite after sending
	WaitEOF   bool  // send SplitAt bytes, wait until the own reader saw EOF, then send the rest
	SplitAt   int64
	AbortAt   int64 // >= 0: close the socket abruptly after sending this many bytes
	ChunkMax  int
}

type peer struct {
	name     string
	conn     *net.UnixConn
	plan     peerPlan
	sendSalt uint64
	recvSalt uint64
	clock    *atomic.Int64
	rng      *rand.Rand

	sent       atomic.Int64
	recv       atomic.Int64
	mismatchAt atomic.Int64 // -1: none
	endTick    atomic.Int64 // tick after the reader ended (EOF or error)
	recvEnd    atomic.Value // "eof" | "error: ..."
	sendErr    atomic.Value
	eofSeen    chan struct{} // closed when the reader ended
	readerDone chan struct{}
	writerDone chan struct{}
	stuck      atomic.Value // set when the writer gave up waiting for EOF
	other      *peer        // the peer at the far end (set by newLink)
	otherAtEnd atomic.Int64 // bytes the far end had received when this reader ended
}

func newPeer(name string, conn *net.UnixConn, plan peerPlan, sendSalt, recvSalt uint64, clock *atomic.Int64, seed int64) *peer {
	p := &peer{name: name, conn: conn, plan: plan, sendSalt: sendSalt, recvSalt: recvSalt, clock: clock, rng: rand.New(rand.NewSource(seed)),
		eofSeen: make(chan struct{}), readerDone: make(chan struct{}), writerDone: make(chan struct{})}
	p.mismatchAt.Store(-1)
	return p
}

func (p *peer) start() {
	go p.reader()
	go p.writer()
}

var bufPool = sync.Pool{New: func() any { b := make([]byte, 128<<10); return &b }}

func (p *peer) reader() {
	defer close(p.readerDone)
	bp := bufPool.Get().(*[]byte)
	defer bufPool.Put(bp)
	buf, scratch := (*bp)[:64<<10], (*bp)[64<<10:]
	for {
		n, err := p.conn.Read(buf)
		if n > 0 {
			off := p.recv.Load()
			if p.mismatchAt.Load() < 0 {
				if i := checkPattern(p.recvSalt, off, buf[:n], scratch); i >= 0 {
					p.mismatchAt.Store(off + int64(i))
				}
			}
			p.recv.Add(int64(n))
		}
		if err != nil {
			if err == io.EOF {
				p.recvEnd.Store("eof")
			} else {
				p.recvEnd.Store("error: " + err.Error())
			}
			p.endTick.Store(p.clock.Add(1))
			if p.other != nil {
				p.otherAtEnd.Store(p.other.recv.Load())
			}
			close(p.eofSeen)
			return
		}
	}
}

func (p *peer) send(upto int64, buf []byte) bool {
	for p.sent.Load() < upto {
		off := p.sent.Load()
		n := int64(1 + p.rng.Intn(p.plan.ChunkMax))
		if n > upto-off {
			n = upto - off
		}
		if p.plan.AbortAt >= 0 && off+n > p.plan.AbortAt {
			n = p.plan.AbortAt - off
			if n <= 0 {
				return false
			}
		}
		fillPattern(p.sendSalt, off, buf[:n])
		w, err := p.conn.Write(buf[:n])
		p.sent.Add(int64(w))
		if err != nil {
			p.sendErr.Store(err.Error())
			return false
		}
	}
	return !(p.plan.AbortAt >= 0 && p.sent.Load() >= p.plan.AbortAt)
}

func (p *peer) writer() {
	defer close(p.writerDone)
	bp := bufPool.Get().(*[]byte)
	defer bufPool.Put(bp)
	buf := (*bp)[:p.plan.ChunkMax]
	abort := func() {
		// Abrupt failure of this side: the whole socket goes away.
		p.conn.Close()
	}
	first := p.plan.Len
	if p.plan.WaitEOF {
		first = p.plan.SplitAt
	}
	if !p.send(first, buf) {
		if p.plan.AbortAt >= 0 && p.sendErr.Load() == nil {
			abort()
		}
		return
	}
	if p.plan.WaitEOF {
		// The other side half-closes first; only then does this side go on.
		if res := c33health.waitDone(p.eofSeen, hangBound); res != "ok" {
			p.stuck.Store(res)
			return
		}
		if !p.send(p.plan.Len, buf) {
			if p.plan.AbortAt >= 0 && p.sendErr.Load() == nil {
				abort()
			}
			return
		}
	}
	if p.plan.HalfClose {
		if err := p.conn.CloseWrite(); err != nil {
			p.sendErr.Store("closewrite: " + err.Error())
		}
	}
}

func (p *peer) ended() bool {
	select {
	case <-p.eofSeen:
		return true
	default:
		return false
	}
}

// link is one forwarded connection with both peers and both wrappers.
type link struct {
	Spec          linkSpec
	clock         *atomic.Int64
	first, second *jconn
	A, B          *peer
}

type linkSpec struct {
	LA      int64  `json:"bytes_a_to_b"`
	LB      int64  `json:"bytes_b_to_a"`
	Mode    string `json:"mode"`  // concurrent | A-then-B | B-then-A | A-only | B-only | none
	Fault   string `json:"fault"` // none | first-read-error | first-write-error | second-read-error | second-write-error | first-partial-write | second-partial-write | A-abort | B-abort | cancel
	FaultAt int64  `json:"fault_at"`
	SplitAt int64  `json:"split_at"`
	Chunk   int    `json:"chunk_max"`
}

func (s linkSpec) aHalfCloses() bool {
	return s.Mode == "concurrent" || s.Mode == "A-then-B" || s.Mode == "B-then-A" || s.Mode == "A-only"
}
func (s linkSpec) bHalfCloses() bool {
	return s.Mode == "concurrent" || s.Mode == "A-then-B" || s.Mode == "B-then-A" || s.Mode == "B-only"
}
func (s linkSpec) clean() bool { return s.Fault == "none" }

func randLen(rng *rand.Rand, big bool) int64 {
	switch x := rng.Intn(100); {
	case x < 10:
		return 0
	case x < 30:
		return int64(1 + rng.Intn(100))
	case x < 70:
		return int64(100 + rng.Intn(64<<10))
	case x < 94 || !big:
		return int64(64<<10 + rng.Intn(1<<20))
	default:
		return int64(1<<20 + rng.Intn(3<<20+1)) // up to 4 MiB
	}
}

func genLink(rng *rand.Rand, modes, faults []string, big bool) linkSpec {
	s := linkSpec{LA: randLen(rng, big), LB: randLen(rng, big), Mode: modes[rng.Intn(len(modes))], Fault: faults[rng.Intn(len(faults))], FaultAt: -1}
	s.Chunk = []int{1, 7, 512, 4096, 32 << 10, 100 << 10}[rng.Intn(6)]
	// tiny writes only on small payloads (each write costs four system calls): at most ~250 writes per direction
	for big := maxI64(s.LA, s.LB); int64(s.Chunk)*120 < big; {
		s.Chunk *= 8
	}
	if s.Chunk > 128<<10 {
		s.Chunk = 128 << 10
	}
	switch s.Mode {
	case "A-then-B":
		s.SplitAt = rng.Int63n(s.LB + 1)
	case "B-then-A":
		s.SplitAt = rng.Int63n(s.LA + 1)
	}
	pick := func(l int64, inclusive bool) int64 {
		if inclusive {
			return rng.Int63n(l + 1)
		}
		if l == 0 {
			return -1
		}
		return rng.Int63n(l)
	}
	switch s.Fault {
	case "first-read-error", "second-write-error", "A-abort", "cancel":
		s.FaultAt = pick(s.LA, s.Fault == "first-read-error" || s.Fault == "cancel")
	case "second-read-error", "first-write-error", "B-abort":
		s.FaultAt = pick(s.LB, s.Fault == "second-read-error")
	}
	// partial writes: FaultAt is the 1-based index of the Write call that fails
	// half way. io.Copy moves at most 32 KiB per Write, so a direction carrying
	// L >= 1 bytes sees at least ceil(L/32 KiB) Write calls.
	switch s.Fault {
	case "first-partial-write":
		if s.LB > 0 {
			s.FaultAt = 1 + rng.Int63n((s.LB+32767)/32768)
		}
	case "second-partial-write":
		if s.LA > 0 {
			s.FaultAt = 1 + rng.Int63n((s.LA+32767)/32768)
		}
	}
	if s.Fault != "none" && s.FaultAt < 0 {
		s.Fault = "none"
	}
	if s.Fault == "A-abort" || s.Fault == "B-abort" {
		s.Mode, s.SplitAt = "concurrent", 0
	}
	return s
}

func newLink(spec linkSpec, salt uint64, seed int64) (*link, error) {
	l := &link{Spec: spec, clock: new(atomic.Int64)}
	a, f, err := socketPair()
	if err != nil {
		return nil, err
	}
	s, b, err := socketPair()
	if err != nil {
		a.Close()
		f.Close()
		return nil, err
	}
	l.first = newJconn(f, "first", l.clock)
	l.second = newJconn(s, "second", l.clock)
	switch spec.Fault {
	case "first-read-error":
		l.first.failReadAt = spec.FaultAt
	case "first-write-error":
		l.first.failWriteAt = spec.FaultAt
	case "second-read-error":
		l.second.failReadAt = spec.FaultAt
	case "second-write-error":
		l.second.failWriteAt = spec.FaultAt
	case "first-partial-write":
		l.first.failWriteCall = spec.FaultAt
	case "second-partial-write":
		l.second.failWriteCall = spec.FaultAt
	}
	saltAB, saltBA := mix64(salt*2+1), mix64(salt*2+2)
	pa := peerPlan{Len: spec.LA, HalfClose: spec.aHalfCloses(), AbortAt: -1, ChunkMax: spec.Chunk}
	pb := peerPlan{Len: spec.LB, HalfClose: spec.bHalfCloses(), AbortAt: -1, ChunkMax: spec.Chunk}
	switch spec.Mode {
	case "A-then-B":
		pb.WaitEOF, pb.SplitAt = true, spec.SplitAt
	case "B-then-A":
		pa.WaitEOF, pa.SplitAt = true, spec.SplitAt
	}
	switch spec.Fault {
	case "A-abort":
		pa.AbortAt = spec.FaultAt
	case "B-abort":
		pb.AbortAt = spec.FaultAt
	}
	l.A = newPeer("A", a, pa, saltAB, saltBA, l.clock, seed*2+1)
	l.B = newPeer("B", b, pb, saltBA, saltAB, l.clock, seed*2+2)
	l.A.other, l.B.other = l.B, l.A
	return l, nil
}

func (l *link) journal() map[string]any {
	end := func(p *peer) any { v := p.recvEnd.Load(); return v }
	return map[string]any{
		"spec":   l.Spec,
		"A":      map[string]any{"sent": l.A.sent.Load(), "received": l.A.recv.Load(), "reader_end": end(l.A), "reader_end_tick": l.A.endTick.Load(), "first_mismatch_at": l.A.mismatchAt.Load(), "send_error": l.A.sendErr.Load(), "stuck": l.A.stuck.Load()},
		"B":      map[string]any{"sent": l.B.sent.Load(), "received": l.B.recv.Load(), "reader_end": end(l.B), "reader_end_tick": l.B.endTick.Load(), "first_mismatch_at": l.B.mismatchAt.Load(), "send_error": l.B.sendErr.Load(), "stuck": l.B.stuck.Load()},
		"first":  map[string]any{"read": l.first.readN.Load(), "written": l.first.writeN.Load(), "close_calls": l.first.closes.Load(), "close_tick": l.first.closeTick.Load(), "closewrite_calls": l.first.closeWrites.Load(), "closewrite_tick": l.first.cwTick.Load(), "fault_tick": l.first.faultHit.Load(), "write_calls": l.first.writeCalls.Load(), "partial_write_delivered": l.first.partialN.Load()},
		"second": map[string]any{"read": l.second.readN.Load(), "written": l.second.writeN.Load(), "close_calls": l.second.closes.Load(), "close_tick": l.second.closeTick.Load(), "closewrite_calls": l.second.closeWrites.Load(), "closewrite_tick": l.second.cwTick.Load(), "fault_tick": l.second.faultHit.Load(), "write_calls": l.second.writeCalls.Load(), "partial_write_delivered": l.second.partialN.Load()},
	}
}

// overlapBytes measures how much of the transfer was really simultaneous: the
// smaller of the two directions' byte counts at the moment the faster
// direction finished.
func (l *link) overlapBytes() int64 {
	a, b := l.A.otherAtEnd.Load(), l.B.otherAtEnd.Load()
	if a < b {
		return a
	}
	return b
}

// closeOuter releases the harness' ends (after the verdict).
func (l *link) closeOuter() {
	l.A.conn.Close()
	l.B.conn.Close()
	l.first.inner.Close()
	l.second.inner.Close()
}

type linkReport struct {
	r      *vk.Run
	where  string // "direct" | "manager"
	extra  map[string]any
	failed bool
}

func (lr *linkReport) violate(l *link, kind, what string) {
	lr.failed = true
	w := l.journal()
	for k, v := range lr.extra {
		w[k] = v
	}
	lr.r.Violation(map[string]string{"check": kind, "route": lr.where}, what, w)
}

// settle waits (bounded) until the transfer on a fault-free link has gone as
// far as the peers' scripts allow: everything sent was received, and a
// half-close arrived as EOF. Returns false if a violation or an unhealthy
// scheduler ended the case.
func (l *link) settle(lr *linkReport) bool {
	s := l.Spec
	cond := func() bool {
		if l.A.recv.Load() < s.LB || l.B.recv.Load() < s.LA {
			return false
		}
		if s.aHalfCloses() && !l.B.ended() {
			return false
		}
		if s.bHalfCloses() && !l.A.ended() {
			return false
		}
		return true
	}
	switch c33health.waitCond(cond, hangBound+time.Duration((s.LA+s.LB)>>16)*time.Millisecond) {
	case "ok":
		return true
	case "hang":
		switch {
		case l.A.stuck.Load() != nil || l.B.stuck.Load() != nil || (l.B.recv.Load() >= s.LA && s.aHalfCloses() && !l.B.ended()) || (l.A.recv.Load() >= s.LB && s.bHalfCloses() && !l.A.ended()):
			lr.violate(l, "eof-not-forwarded", "one side sent everything and half-closed, the other side received all the bytes but never saw EOF")
		default:
			lr.violate(l, "bytes-not-delivered", fmt.Sprintf("the transfer stalled: A received %d of %d, B received %d of %d", l.A.recv.Load(), s.LB, l.B.recv.Load(), s.LA))
		}
	default:
		lr.r.Inconclusive("scheduler-unhealthy")
		lr.failed = true
	}
	return false
}

// verifyData checks what both peers received against the patterns.
func (l *link) verifyData(lr *linkReport, complete bool) {
	s := l.Spec
	for _, x := range []struct {
		p      *peer
		want   int64
		closer bool
		dir    string
	}{{l.A, s.LB, s.bHalfCloses(), "B->A"}, {l.B, s.LA, s.aHalfCloses(), "A->B"}} {
		if m := x.p.mismatchAt.Load(); m >= 0 {
			lr.violate(l, "bytes-differ", fmt.Sprintf("direction %s: byte at offset %d is not the byte the other side sent at that offset", x.dir, m))
		}
		if got := x.p.recv.Load(); got > x.want {
			lr.violate(l, "excess-bytes", fmt.Sprintf("direction %s: %d bytes received but only %d were sent", x.dir, got, x.want))
		} else if complete && got != x.want {
			lr.violate(l, "bytes-not-delivered", fmt.Sprintf("direction %s: %d bytes received, %d were sent before the half-close", x.dir, got, x.want))
		}
		if complete && x.closer {
			if e, _ := x.p.recvEnd.Load().(string); e != "eof" {
				lr.violate(l, "eof-not-forwarded", fmt.Sprintf("direction %s: the sender half-closed but the receiver's stream ended with %q", x.dir, e))
			}
		}
	}
}

// ---- route (i): ForwardAndClose called directly ----------------------------

type directCase struct {
	Index    int      `json:"case"`
	Link     linkSpec `json:"link"`
	Auditors bool     `json:"auditors"`
	// FullDuplex marks the cases in which both peers stream several MiB simultaneously.
	FullDuplex bool `json:"full_duplex,omitempty"`
}

func runDirect(r *vk.Run, dc directCase) (sig string, hang bool) {
	l, err := newLink(dc.Link, uint64(dc.Index)+1, int64(dc.Index))
	if err != nil {
		r.Inconclusive("socketpair-failed")
		return "", false
	}
	defer l.closeOuter()
	s := dc.Link
	lr := &linkReport{r: r, where: "direct", extra: map[string]any{"case": dc.Index, "auditors": dc.Auditors}}
	var audFirst, audSecond atomic.Uint64
	var a1, a2 func(uint64)
	if dc.Auditors {
		a1 = func(n uint64) { audFirst.Add(n) }
		a2 = func(n uint64) { audSecond.Add(n) }
	}
	ctx, cancel := context.WithCancel(context.Background())
	defer cancel()
	ret := make(chan struct{})
	var retTick atomic.Int64
	var closedAtReturn [2]int32
	go func() {
		r.Guard(dc, func() {
			forwarding.ForwardAndClose(ctx, l.first, l.second, a1, a2)
		})
		closedAtReturn[0], closedAtReturn[1] = l.first.closes.Load(), l.second.closes.Load()
		retTick.Store(l.clock.Add(1))
		close(ret)
	}()
	l.A.start()
	l.B.start()

	returned := func() bool {
		select {
		case <-ret:
			return true
		default:
			return false
		}
	}
	var cancelTick int64
	selfEnding := s.clean() && s.aHalfCloses() && s.bHalfCloses()
	switch {
	case s.clean() && !selfEnding:
		// One side never half-closes: forwarding goes on until cancelled.
		if !l.settle(lr) {
			return "", true
		}
		if dc.Auditors {
			if res := c33health.waitCond(func() bool { return audFirst.Load() >= uint64(s.LB) && audSecond.Load() >= uint64(s.LA) }, hangBound); res == "hang" {
				lr.violate(l, "audit-mismatch", fmt.Sprintf("auditors report first=%d second=%d after %d and %d bytes were delivered", audFirst.Load(), audSecond.Load(), s.LB, s.LA))
			}
		}
		time.Sleep(200 * time.Microsecond)
		if returned() {
			lr.violate(l, "returned-early", "ForwardAndClose returned although one direction had not finished, nothing failed and the context was not cancelled")
		}
		// The side whose sender did not half-close must not see EOF yet.
		if !s.aHalfCloses() && l.B.ended() {
			lr.violate(l, "premature-eof", "B's stream ended although A never half-closed, nothing failed and nothing was cancelled")
		}
		if !s.bHalfCloses() && l.A.ended() {
			lr.violate(l, "premature-eof", "A's stream ended although B never half-closed, nothing failed and nothing was cancelled")
		}
		cancelTick = l.clock.Add(1)
		cancel()
	case s.Fault == "cancel":
		res := c33health.waitCond(func() bool { return l.B.recv.Load() >= s.FaultAt || returned() }, hangBound+time.Duration(s.LA>>16)*time.Millisecond)
		if res != "ok" {
			if res == "hang" {
				lr.violate(l, "bytes-not-delivered", fmt.Sprintf("B received %d bytes, %d expected before the cancellation point", l.B.recv.Load(), s.FaultAt))
			} else {
				r.Inconclusive("scheduler-unhealthy")
			}
			return "", true
		}
		cancelTick = l.clock.Add(1)
		cancel()
	}

	// The terminating condition is (or will be) there: both directions
	// finished, or a failure was injected, or the context was cancelled.
	bound := hangBound + time.Duration((s.LA+s.LB)>>16)*time.Millisecond
	switch c33health.waitDone(ret, bound) {
	case "ok":
	case "hang":
		kind := "did-not-return"
		if selfEnding && (l.A.stuck.Load() != nil || l.B.stuck.Load() != nil) {
			kind = "eof-not-forwarded"
		}
		lr.violate(l, kind, fmt.Sprintf("ForwardAndClose did not return (mode %s, fault %s@%d, cancelled=%v)", s.Mode, s.Fault, s.FaultAt, cancelTick != 0))
		cancel()
		return "", true
	default:
		r.Inconclusive("scheduler-unhealthy")
		cancel()
		return "", true
	}
	if closedAtReturn[0] < 1 || closedAtReturn[1] < 1 {
		lr.violate(l, "not-closed", fmt.Sprintf("ForwardAndClose returned with Close calls first=%d second=%d", closedAtReturn[0], closedAtReturn[1]))
	}
	// After the return both outer readers end (their peers are closed).
	all := make(chan struct{})
	go func() {
		<-l.A.readerDone
		<-l.B.readerDone
		<-l.A.writerDone
		<-l.B.writerDone
		close(all)
	}()
	switch c33health.waitDone(all, hangBound) {
	case "ok":
	case "hang":
		lr.violate(l, "not-closed", "after ForwardAndClose returned a peer is still blocked on its connection (the forwarder's end is still open)")
		return "", true
	default:
		r.Inconclusive("scheduler-unhealthy")
		return "", true
	}
	l.verifyData(lr, selfEnding || (s.clean() && !selfEnding))
	if s.clean() && !selfEnding {
		// EOF iff half-closed: the stream of the side whose sender stayed open ended only after the cancellation.
		if !s.aHalfCloses() && l.B.endTick.Load() < cancelTick {
			lr.violate(l, "premature-eof", "B's stream ended before the cancellation although A never half-closed")
		}
		if !s.bHalfCloses() && l.A.endTick.Load() < cancelTick {
			lr.violate(l, "premature-eof", "A's stream ended before the cancellation although B never half-closed")
		}
	}
	if dc.Auditors {
		af, as := audFirst.Load(), audSecond.Load()
		if s.clean() {
			if af != uint64(s.LB) || as != uint64(s.LA) {
				lr.violate(l, "audit-mismatch", fmt.Sprintf("first auditor %d (bytes written to first: %d), second auditor %d (bytes written to second: %d)", af, s.LB, as, s.LA))
			}
		} else {
			if af > uint64(s.LB) || as > uint64(s.LA) {
				lr.violate(l, "audit-mismatch", fmt.Sprintf("first auditor %d > %d bytes sent towards first, or second auditor %d > %d", af, s.LB, as, s.LA))
			}
			// Lower bound: every byte a peer received was reported as written by
			// some Write call, so the auditor of that connection must (at
			// quiescence - the last Write may return after ForwardAndClose did)
			// have seen at least as many bytes as the peer read.
			gotA, gotB := uint64(l.A.recv.Load()), uint64(l.B.recv.Load())
			switch c33health.waitCond(func() bool { return audFirst.Load() >= gotA && audSecond.Load() >= gotB }, hangBound) {
			case "ok":
				r.Count("direct_audit_lower_bound_checks", 1)
			case "hang":
				lr.violate(l, "audit-below-delivered", fmt.Sprintf("first auditor %d but peer A received %d bytes; second auditor %d but peer B received %d bytes (fault %s@%d)", audFirst.Load(), gotA, audSecond.Load(), gotB, s.Fault, s.FaultAt))
			default:
				r.Inconclusive("scheduler-unhealthy")
			}
		}
	}
	r.Count("direct_bytes_relayed", l.A.recv.Load()+l.B.recv.Load())
	if dc.FullDuplex {
		r.Count("full_duplex_overlap_bytes", l.overlapBytes())
	}
	if n := l.first.partialN.Load() + l.second.partialN.Load(); n > 0 {
		r.Count("direct_partial_writes_delivering_a_prefix", 1)
	}
	if s.Fault != "none" && s.Fault != "cancel" && s.Fault != "A-abort" && s.Fault != "B-abort" {
		if l.first.faultHit.Load() == 0 && l.second.faultHit.Load() == 0 {
			r.Count("direct_faults_not_reached", 1)
		} else {
			r.Count("direct_faults_hit", 1)
		}
	}
	return fmt.Sprintf("direct|%s|%s|a%d|b%d|aud=%v", s.Mode, s.Fault, lenBucket(s.LA), lenBucket(s.LB), dc.Auditors), false
}

func lenBucket(n int64) int {
	switch {
	case n == 0:
		return 0
	case n <= 100:
		return 1
	case n <= 64<<10:
		return 2
	case n <= 1<<20:
		return 3
	}
	return 4
}

// fullDuplexLink: both peers stream several MiB at the same time on the same
// connection and half-close when done (true full duplex).
func fullDuplexLink(rng *rand.Rand, quick bool) linkSpec {
	lo, span := int64(2<<20), int64(2<<20)
	if quick {
		lo, span = 3<<19, 3<<19
	}
	return linkSpec{LA: lo + rng.Int63n(span+1), LB: lo + rng.Int63n(span+1), Mode: "concurrent", Fault: "none", FaultAt: -1, Chunk: []int{32 << 10, 64 << 10, 128 << 10, 5000}[rng.Intn(4)]}
}

var allModes = []string{"concurrent", "concurrent", "A-then-B", "B-then-A", "A-only", "B-only", "none"}
var allFaults = []string{"none", "none", "none", "none", "none", "first-read-error", "first-write-error", "second-read-error", "second-write-error", "first-partial-write", "second-partial-write", "first-partial-write", "second-partial-write", "A-abort", "B-abort", "cancel", "cancel"}

func c33() {
	r := vk.Start("C33", "exploration")
	c33health = startHealth()

	// Route (i): ForwardAndClose directly.
	t0 := time.Now()
	n := r.Pick(400, 12000)
	work := make(chan directCase, n)
	rng := r.Rand("direct")
	for i := 0; i < n; i++ {
		// quick keeps the multi-MiB payloads to a few cases
		dc := directCase{Index: i, Link: genLink(rng, allModes, allFaults, !r.Quick() || i%25 == 7), Auditors: rng.Intn(3) != 0}
		work <- dc
	}
	close(work)
	nfd := r.Pick(6, 80)
	fdwork := make(chan directCase, nfd)
	for i := 0; i < nfd; i++ {
		fdwork <- directCase{Index: n + i, Link: fullDuplexLink(rng, r.Quick()), Auditors: i%2 == 0, FullDuplex: true}
	}
	close(fdwork)
	var hangs, sampled atomic.Int64
	var wg sync.WaitGroup
	for w := 0; w < 8; w++ {
		wg.Add(1)
		go func() {
			defer wg.Done()
			for dc := range work {
				if hangs.Load() >= 2 {
					return
				}
				fmt.Printf("direct %s\n", vk.JSON(dc))
				sig, hang := runDirect(r, dc)
				r.Eval(1)
				r.Count("direct_cases", 1)
				if hang {
					hangs.Add(1)
					continue
				}
				if sig != "" {
					r.Distinct(sig)
				}
				if dc.Link.Fault != "none" && dc.Link.LA > 1000 && sampled.Add(1) <= 2 {
					r.Sample(dc)
				}
			}
		}()
	}
	wg.Wait()
	// Full-duplex cases, a few at a time so that both directions of one
	// connection really are busy simultaneously.
	for w := 0; w < 3; w++ {
		wg.Add(1)
		go func() {
			defer wg.Done()
			for dc := range fdwork {
				if hangs.Load() >= 2 {
					return
				}
				fmt.Printf("direct %s\n", vk.JSON(dc))
				sig, hang := runDirect(r, dc)
				r.Eval(1)
				r.Count("direct_full_duplex_cases", 1)
				if hang {
					hangs.Add(1)
					continue
				}
				if sig != "" {
					r.Distinct("fd|" + sig)
				}
			}
		}()
	}
	wg.Wait()
	r.Note("route_i_wall_s", time.Since(t0).Seconds())

	// Route (ii): the real Manager and controller with scripted endpoints.
	t1 := time.Now()
	if hangs.Load() < 2 {
		c33Manager(r)
	}
	r.Note("route_ii_wall_s", time.Since(t1).Seconds())

	// Bonus sensor for C34 (whose own check is built without the race
	// detector): concurrent handshakes under -race. Results are judged by C34.
	c34health = c33health
	c34Concurrent(r, r.Pick(5, 50), false)
	r.Note("heartbeat_max_gap_ms", c33health.maxGap.Load()/1e6)
	r.Assume("connections are unix stream socket pairs; 'half-close' is CloseWrite on the peer's end; an abrupt failure is Close of the peer's socket or an error injected by the wrapper at a byte offset")
	r.Assume("'is closed / returns' is bounded progress: a violation needs >= 12 s (plus 1 ms per 64 KiB of payload) with a healthy heartbeat")
	r.Finish("(i) ForwardAndClose over journaling net.Conn+CloseWrite wrappers on unix socket pairs: payloads 0..4 MiB per direction, six half-close orders (both concurrently, A then B, B then A, only A, only B, none), dedicated full-duplex cases (both peers streaming 1.5..4 MiB at the same time), wrapper read/write failures (including writes that deliver a prefix and return n>0 with an error), abrupt peer closes and context cancellation at random byte offsets, with and without auditors; (ii) sessions created through forwarding.Manager with scripted endpoints (replacing the local protocol handler) handing out 1..64 such connections at once, totals read through Manager.List, including full-duplex sessions and sessions whose forwarding loop is torn down (source/destination transport failure, pause+resume) and re-established while earlier connections are still being closed; distinct = route x mode x fault x payload-size buckets (route i), connection-count bucket x fault mix x stay-open (route ii)", 25)
}

func maxI64(a, b int64) int64 {
	if a > b {
		return a
	}
	return b
}
