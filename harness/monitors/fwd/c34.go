package main

import (
	"bytes"
	"encoding/binary"
	"errors"
	"fmt"
	"io"
	"sync"
	"time"

	"github.com/mutagen-io/mutagen/pkg/agent"
	"github.com/mutagen-io/mutagen/pkg/mutagen"

	"verif/internal/vk"
)

// ---------------------------------------------------------------------------
// C34: version and magic-number handshakes agree on both sides.
//
// The real client half (agent.ClientHandshake then
// mutagen.ClientVersionHandshake, as pkg/agent/dial.go composes them) and the
// real server half (agent.ServerHandshake then mutagen.ServerVersionHandshake,
// as cmd/mutagen-agent does) talk through a harness relay that journals every
// byte, and can flip one byte or cut one direction at any byte index.
// Scripted peers that ARE a different version play either role against the
// real opposite half.
// ---------------------------------------------------------------------------

var c34health *health

// duplex is one half's view of the relay: Read takes what the relay
// delivered, Write hands bytes to the relay.
type duplex struct {
	in     *io.PipeReader
	out    *io.PipeWriter
	mu     sync.Mutex
	readB  []byte // bytes this half actually consumed
	wroteB []byte
}

func (d *duplex) Read(p []byte) (int, error) {
	n, err := d.in.Read(p)
	d.mu.Lock()
	d.readB = append(d.readB, p[:n]...)
	d.mu.Unlock()
	return n, err
}

func (d *duplex) Write(p []byte) (int, error) {
	n, err := d.out.Write(p)
	d.mu.Lock()
	d.wroteB = append(d.wroteB, p[:n]...)
	d.mu.Unlock()
	return n, err
}

func (d *duplex) Close() error {
	d.out.Close()
	d.in.Close()
	return nil
}

// damage describes what the relay does to one direction.
type damage struct {
	Dir   string `json:"direction"` // "" (none) | "s2c" | "c2s"
	Kind  string `json:"kind"`      // flip | truncate
	At    int    `json:"byte_index"`
	Xor   byte   `json:"xor,omitempty"`
	Chunk int    `json:"relay_chunk"` // 0: forward writes as they come; n>0: deliver n bytes at a time
}

// relay copies from src (a half's output) to dst (the other half's input),
// applying the damage for this direction. It keeps draining src after a
// truncation so that the sender is never blocked by the cut.
func relay(src *io.PipeReader, dst *io.PipeWriter, dir string, dmg damage, delivered *[]byte, done chan<- struct{}) {
	defer close(done)
	buf := make([]byte, 64)
	pos := 0
	cut := false
	for {
		n, err := src.Read(buf)
		if n > 0 && !cut {
			chunk := append([]byte(nil), buf[:n]...)
			if dmg.Dir == dir && dmg.Kind == "flip" && dmg.At >= pos && dmg.At < pos+n {
				chunk[dmg.At-pos] ^= dmg.Xor
			}
			if dmg.Dir == dir && dmg.Kind == "truncate" && dmg.At < pos+n {
				chunk = chunk[:dmg.At-pos]
				cut = true
			}
			for len(chunk) > 0 {
				k := len(chunk)
				if dmg.Chunk > 0 && k > dmg.Chunk {
					k = dmg.Chunk
				}
				if _, werr := dst.Write(chunk[:k]); werr != nil {
					// the receiving half is gone: discard from now on
					cut = true
					break
				}
				*delivered = append(*delivered, chunk[:k]...)
				chunk = chunk[k:]
			}
			if cut {
				dst.Close() // the receiver sees EOF at the cut
			}
		}
		pos += n
		if err != nil {
			dst.Close()
			return
		}
		if dmg.Dir == dir && dmg.Kind == "truncate" && dmg.At == pos && !cut {
			cut = true
			dst.Close()
		}
	}
}

type halfFunc func(stream io.ReadWriteCloser) error

func realClient(which string) halfFunc {
	return func(s io.ReadWriteCloser) error {
		if which != "version" {
			if err := agent.ClientHandshake(s); err != nil {
				return err
			}
		}
		if which != "magic" {
			return mutagen.ClientVersionHandshake(s)
		}
		return nil
	}
}

func realServer(which string) halfFunc {
	return func(s io.ReadWriteCloser) error {
		if which != "version" {
			if err := agent.ServerHandshake(s); err != nil {
				return err
			}
		}
		if which != "magic" {
			return mutagen.ServerVersionHandshake(s)
		}
		return nil
	}
}

type c34outcome struct {
	ClientErr, ServerErr string
	ClientNil, ServerNil bool
	S2C, C2S             []byte // bytes delivered by the relay to the client / to the server
	ClientRead           []byte // bytes the client half consumed
	ServerRead           []byte
	ClientWrote          []byte
	ServerWrote          []byte
	Hung                 string
}

// runPair connects a client half and a server half through the relay.
func runPair(client, server halfFunc, dmg damage) c34outcome {
	// server -> client
	sOutR, sOutW := io.Pipe()
	cInR, cInW := io.Pipe()
	// client -> server
	cOutR, cOutW := io.Pipe()
	sInR, sInW := io.Pipe()
	cs := &duplex{in: cInR, out: cOutW}
	ss := &duplex{in: sInR, out: sOutW}
	var out c34outcome
	d1, d2 := make(chan struct{}), make(chan struct{})
	go relay(sOutR, cInW, "s2c", dmg, &out.S2C, d1)
	go relay(cOutR, sInW, "c2s", dmg, &out.C2S, d2)
	var cerr, serr error
	var wg sync.WaitGroup
	wg.Add(2)
	go func() {
		defer wg.Done()
		cerr = client(cs)
		cs.Close() // a half that has returned closes its stream (dial.go / the agent's exit do the same on error)
	}()
	go func() {
		defer wg.Done()
		serr = server(ss)
		ss.Close()
	}()
	all := make(chan struct{})
	go func() { wg.Wait(); <-d1; <-d2; close(all) }()
	if res := c34health.waitDone(all, hangBound); res != "ok" {
		out.Hung = res
		// unblock whatever is left
		cs.Close()
		ss.Close()
		sOutR.Close()
		cOutR.Close()
		cInW.Close()
		sInW.Close()
		return out
	}
	out.ClientNil, out.ServerNil = cerr == nil, serr == nil
	if cerr != nil {
		out.ClientErr = cerr.Error()
	}
	if serr != nil {
		out.ServerErr = serr.Error()
	}
	out.ClientRead, out.ServerRead = cs.readB, ss.readB
	out.ClientWrote, out.ServerWrote = cs.wroteB, ss.wroteB
	return out
}

// The specification of the wire format, frozen here: what a conforming peer of
// THIS version sends. (The magic numbers are not exported; they are frozen
// from handshake.go's documentation and cross-checked against the clean run.)
var (
	specServerMagic = []byte{0x05, 0x27, 0x87}
	specClientMagic = []byte{0x87, 0x27, 0x05}
)

func versionBytes(major, minor, patch uint32) []byte {
	b := make([]byte, 12)
	binary.BigEndian.PutUint32(b[0:], major)
	binary.BigEndian.PutUint32(b[4:], minor)
	binary.BigEndian.PutUint32(b[8:], patch)
	return b
}

func expectedStream(which string, magic []byte) []byte {
	var b []byte
	if which != "version" {
		b = append(b, magic...)
	}
	if which != "magic" {
		b = append(b, versionBytes(mutagen.VersionMajor, mutagen.VersionMinor, mutagen.VersionPatch)...)
	}
	return b
}

// scriptedPeer plays one role of the protocol with the given magic number and
// version bytes, following the protocol's order of sends and receives, and
// never judges anything itself.
func scriptedPeer(role, which string, magic, version []byte) halfFunc {
	return func(s io.ReadWriteCloser) error {
		recv := func(n int) error {
			_, err := io.ReadFull(s, make([]byte, n))
			return err
		}
		send := func(b []byte) error { _, err := s.Write(b); return err }
		steps := []func() error{}
		if which != "version" {
			if role == "server" {
				steps = append(steps, func() error { return send(magic) }, func() error { return recv(3) })
			} else {
				steps = append(steps, func() error { return recv(3) }, func() error { return send(magic) })
			}
		}
		if which != "magic" {
			if role == "server" {
				steps = append(steps, func() error { return send(version) }, func() error { return recv(12) })
			} else {
				steps = append(steps, func() error { return recv(12) }, func() error { return send(version) })
			}
		}
		for _, st := range steps {
			if err := st(); err != nil {
				return errors.New("scripted peer: " + err.Error())
			}
		}
		return nil
	}
}

func hexs(b []byte) string { return fmt.Sprintf("%x", b) }

func c34() {
	r := vk.Start("C34", "fault_enumeration")
	c34health = startHealth()
	hung := 0

	witness := func(which string, dmg damage, o c34outcome, extra map[string]any) map[string]any {
		w := map[string]any{"handshake": which, "damage": dmg, "client_result": o.ClientErr, "server_result": o.ServerErr, "client_nil": o.ClientNil, "server_nil": o.ServerNil,
			"delivered_to_client": hexs(o.S2C), "delivered_to_server": hexs(o.C2S), "client_consumed": hexs(o.ClientRead), "server_consumed": hexs(o.ServerRead)}
		for k, v := range extra {
			w[k] = v
		}
		return w
	}

	for _, which := range []string{"both", "magic", "version"} {
		expS2C := expectedStream(which, specServerMagic)
		expC2S := expectedStream(which, specClientMagic)

		// (a) clean runs, with several relay chunkings.
		for _, chunk := range []int{0, 1, 2, 5} {
			dmg := damage{Chunk: chunk}
			fmt.Printf("clean %s chunk=%d\n", which, chunk)
			o := runPair(realClient(which), realServer(which), dmg)
			r.Eval(1)
			if o.Hung != "" {
				hung++
				if o.Hung == "hang" {
					r.Violation(map[string]string{"check": "handshake-hung", "case": "clean"}, "clean handshake did not complete", witness(which, dmg, o, nil))
				} else {
					r.Inconclusive("scheduler-unhealthy")
				}
				continue
			}
			if !o.ClientNil || !o.ServerNil {
				r.Violation(map[string]string{"check": "clean-handshake-rejected", "handshake": which}, fmt.Sprintf("undamaged %s handshake between the real halves failed: client %q server %q", which, o.ClientErr, o.ServerErr), witness(which, dmg, o, nil))
				continue
			}
			if !bytes.Equal(o.ServerWrote, expS2C) || !bytes.Equal(o.ClientWrote, expC2S) {
				r.Violation(map[string]string{"check": "wire-format-differs", "handshake": which}, fmt.Sprintf("the real halves sent server=%x client=%x, the documented format is server=%x client=%x", o.ServerWrote, o.ClientWrote, expS2C, expC2S), witness(which, dmg, o, nil))
				continue
			}
			r.Distinct(fmt.Sprintf("clean|%s|%d", which, chunk))
			r.Count("clean_runs_accepted", 1)
		}

		// (c) every byte index of each direction: flips and truncation.
		xors := []byte{0x01, 0x02, 0x04, 0x08, 0x10, 0x20, 0x40, 0x80, 0xff}
		for xr := r.Rand("xor-" + which); len(xors) < 16; {
			// quick: the eight single-bit flips, the complement and seven seeded values
			x := byte(1 + xr.Intn(255))
			if !bytes.Contains(xors, []byte{x}) {
				xors = append(xors, x)
			}
		}
		if !r.Quick() {
			xors = xors[:0]
			for x := 1; x <= 255; x++ {
				xors = append(xors, byte(x))
			}
		}
		for _, dir := range []string{"s2c", "c2s"} {
			exp := expS2C
			if dir == "c2s" {
				exp = expC2S
			}
			var cases []damage
			for at := 0; at < len(exp); at++ {
				for _, x := range xors {
					cases = append(cases, damage{Dir: dir, Kind: "flip", At: at, Xor: x})
				}
			}
			for at := 0; at < len(exp); at++ { // cutting at len(exp) is no damage
				cases = append(cases, damage{Dir: dir, Kind: "truncate", At: at})
			}
			for ci, dmg := range cases {
				dmg.Chunk = []int{0, 1, 3}[ci%3]
				if hung >= 2 {
					break
				}
				fmt.Printf("damage %s %s\n", which, vk.JSON(dmg))
				o := runPair(realClient(which), realServer(which), dmg)
				r.Eval(1)
				if o.Hung != "" {
					hung++
					if o.Hung == "hang" {
						r.Violation(map[string]string{"check": "handshake-hung", "case": dmg.Kind, "direction": dir}, "a damaged handshake did not complete on both sides", witness(which, dmg, o, nil))
					} else {
						r.Inconclusive("scheduler-unhealthy")
					}
					continue
				}
				// The half that received the damaged bytes must fail; no half may
				// return nil having consumed anything but the expected bytes.
				type side struct {
					name     string
					nilRes   bool
					consumed []byte
					expected []byte
					receives string
				}
				for _, sd := range []side{{"client", o.ClientNil, o.ClientRead, expS2C, "s2c"}, {"server", o.ServerNil, o.ServerRead, expC2S, "c2s"}} {
					damagedHere := sd.receives == dir
					if sd.nilRes && !bytes.Equal(sd.consumed, sd.expected) {
						kind := "accepted-damaged-handshake"
						r.Violation(map[string]string{"check": kind, "side": sd.name, "damage": dmg.Kind, "handshake": which, "field": fieldOf(which, dmg.At)},
							fmt.Sprintf("the %s returned nil after consuming %x; a conforming peer sends %x (%s of byte %d in direction %s)", sd.name, sd.consumed, sd.expected, dmg.Kind, dmg.At, dir), witness(which, dmg, o, nil))
					}
					if damagedHere {
						r.Count("damaged_cases_judged", 1)
						if !sd.nilRes {
							r.Count("damaged_side_rejected", 1)
						}
					} else if sd.nilRes {
						r.Count("undamaged_side_returned_nil", 1)
					} else {
						r.Count("undamaged_side_failed_too", 1)
					}
				}
				r.Distinct(fmt.Sprintf("dmg|%s|%s|%s|%d|%02x", which, dir, dmg.Kind, dmg.At, dmg.Xor))
			}
		}

		// (b) scripted peers that are a different version / speak a different magic.
		type variant struct {
			name           string
			maj, min, pat  uint32
			magicOverrides []byte
		}
		M, m, p := uint32(mutagen.VersionMajor), uint32(mutagen.VersionMinor), uint32(mutagen.VersionPatch)
		bs := func(v uint32) uint32 { return v<<24 | (v&0xff00)<<8 | (v>>8)&0xff00 | v>>24 }
		variants := []variant{
			{name: "major+1", maj: M + 1, min: m, pat: p}, {name: "major-1", maj: M - 1, min: m, pat: p},
			{name: "minor+1", maj: M, min: m + 1, pat: p}, {name: "minor-1", maj: M, min: m - 1, pat: p},
			{name: "patch+1", maj: M, min: m, pat: p + 1}, {name: "patch-1", maj: M, min: m, pat: p - 1},
			{name: "byte-swapped", maj: bs(M), min: bs(m), pat: bs(p)},
			{name: "huge", maj: 0xFFFFFFFF, min: 0xFFFFFFFF, pat: 0xFFFFFFFF},
			{name: "rotated", maj: m, min: p, pat: M},
			{name: "patch+256", maj: M, min: m, pat: p + 256}, {name: "patch+2^31", maj: M, min: m, pat: p + 1<<31},
			{name: "minor+2^16", maj: M, min: m + 1<<16, pat: p},
		}
		if which != "magic" {
			for _, v := range variants {
				vb := versionBytes(v.maj, v.min, v.pat)
				if bytes.Equal(vb, versionBytes(M, m, p)) {
					continue // e.g. byte-swapping 0.0.0: not a different version
				}
				for _, realRole := range []string{"client", "server"} {
					fmt.Printf("different-version %s %s real=%s\n", which, v.name, realRole)
					var o c34outcome
					if realRole == "client" {
						o = runPair(realClient(which), scriptedPeer("server", which, specServerMagic, vb), damage{})
					} else {
						o = runPair(scriptedPeer("client", which, specClientMagic, vb), realServer(which), damage{})
					}
					r.Eval(1)
					if o.Hung != "" {
						hung++
						if o.Hung == "hang" {
							r.Violation(map[string]string{"check": "handshake-hung", "case": "different-version"}, "handshake with a peer of another version did not complete", witness(which, damage{}, o, map[string]any{"peer_version": v.name}))
						} else {
							r.Inconclusive("scheduler-unhealthy")
						}
						continue
					}
					accepted := (realRole == "client" && o.ClientNil) || (realRole == "server" && o.ServerNil)
					if accepted {
						r.Violation(map[string]string{"check": "accepted-different-version", "side": realRole, "variant": v.name},
							fmt.Sprintf("the real %s accepted a peer whose version is %d.%d.%d (%s); own version %d.%d.%d", realRole, v.maj, v.min, v.pat, v.name, M, m, p), witness(which, damage{}, o, map[string]any{"peer_version_bytes": hexs(vb)}))
					}
					r.Count("different_version_peers_rejected", 1)
					r.Distinct(fmt.Sprintf("ver|%s|%s|%s", which, v.name, realRole))
				}
			}
		}
		if which != "version" {
			// peers with a wrong magic number: the other role's magic, reversed bytes, printable text.
			for _, realRole := range []string{"client", "server"} {
				good := specServerMagic
				if realRole == "server" {
					good = specClientMagic
				}
				bads := [][]byte{{good[2], good[1], good[0]}, []byte("ssh"), {0, 0, 0}, {good[0], good[1], good[2] ^ 0xff}}
				for bi, bad := range bads {
					if bytes.Equal(bad, good) {
						continue
					}
					fmt.Printf("wrong-magic %s real=%s %x\n", which, realRole, bad)
					var o c34outcome
					vb := versionBytes(M, m, p)
					if realRole == "client" {
						o = runPair(realClient(which), scriptedPeer("server", which, bad, vb), damage{})
					} else {
						o = runPair(scriptedPeer("client", which, bad, vb), realServer(which), damage{})
					}
					r.Eval(1)
					if o.Hung != "" {
						hung++
						if o.Hung == "hang" {
							r.Violation(map[string]string{"check": "handshake-hung", "case": "wrong-magic"}, "handshake with a peer sending a wrong magic number did not complete", witness(which, damage{}, o, nil))
						} else {
							r.Inconclusive("scheduler-unhealthy")
						}
						continue
					}
					accepted := (realRole == "client" && o.ClientNil) || (realRole == "server" && o.ServerNil)
					if accepted {
						r.Violation(map[string]string{"check": "accepted-wrong-magic", "side": realRole},
							fmt.Sprintf("the real %s accepted the magic number %x (expected %x)", realRole, bad, good), witness(which, damage{}, o, nil))
					}
					r.Count("wrong_magic_peers_rejected", 1)
					r.Distinct(fmt.Sprintf("magic|%s|%s|%d", which, realRole, bi))
				}
			}
		}
	}
	if hung < 2 {
		if c34Interleaved(r) {
			hung++
		}
		c34Concurrent(r, r.Pick(20, 400), true)
	}
	r.Sample(map[string]any{"scenario": "interleaved", "function": "agent.ClientHandshake", "connection_1": "first read delivers fa (05 xor ff), parked; connection 2 completes a valid handshake; then connection 1 receives 27 87", "expected": "connection 1 is rejected"})
	r.Sample(map[string]any{"handshake": "both", "damage": damage{Dir: "s2c", Kind: "flip", At: 14, Xor: 1}, "meaning": "last byte of the server's patch version flipped on its way to the client"})
	r.Sample(map[string]any{"handshake": "both", "damage": damage{Dir: "c2s", Kind: "truncate", At: 3}, "meaning": "the server receives the client's magic number and then EOF"})
	r.Note("exhaustive", !r.Quick()) // every byte index in both tiers; every xor value only in thorough
	r.Note("expected_server_to_client", hexs(expectedStream("both", specServerMagic)))
	r.Note("expected_client_to_server", hexs(expectedStream("both", specClientMagic)))
	r.Assume("a half that returns (nil or error) closes its stream, as pkg/agent/dial.go and the agent process do; a cut direction delivers EOF to the receiver while the sender's writes are swallowed")
	r.Assume("oracle as in DESIGN §5 C34: the half that consumed damaged bytes must fail; a half that consumed exactly the expected bytes may return nil even if the other half fails")
	r.Finish("real client and server halves (magic only, version only, magic then version) through a journaling relay: clean runs; every byte index of both directions with 16 (quick: single-bit flips, complement, seeded values) / all 255 (thorough) xor values and truncation at every index; scripted peers of 12 different versions and 4 wrong magic numbers in either role; two handshakes in flight in one process: a connection whose 1..4 leading bytes are damaged delivers them with its first read, a second valid connection completes the same function (agent.Client/ServerHandshake, mutagen.Client/ServerVersionHandshake and their compositions), then the first connection receives the undamaged rest - for every split point; 24 relayed handshakes at a time, half of them damaged; distinct = (handshake, direction, damage kind, byte index, xor) and (variant, role)", 50)
}

// fieldOf names the protocol field a byte index of one direction belongs to.
func fieldOf(which string, at int) string {
	if which != "version" {
		if at < 3 {
			return "magic"
		}
		at -= 3
	}
	return []string{"major", "minor", "patch"}[minInt(at/4, 2)]
}

// ---------------------------------------------------------------------------
// Concurrent handshakes in one process.
//
// splitConn is a scripted connection: the first Read delivers `first`, the
// next Read blocks until the harness opens the gate and then delivers `rest`.
// While connection 1 is parked between its two reads, a second, valid
// connection completes the same handshake in the same process. Whatever the
// second one did, connection 1 consumed a damaged stream and must be rejected.
// ---------------------------------------------------------------------------

type splitConn struct {
	first, rest []byte
	gate        chan struct{}
	atGate      chan struct{}
	once        sync.Once
	mu          sync.Mutex
	consumed    []byte
	wrote       []byte
}

func newSplitConn(stream []byte, splitAt int) *splitConn {
	return &splitConn{first: append([]byte(nil), stream[:splitAt]...), rest: append([]byte(nil), stream[splitAt:]...), gate: make(chan struct{}), atGate: make(chan struct{})}
}

func (c *splitConn) Read(p []byte) (int, error) {
	c.mu.Lock()
	if len(c.first) > 0 {
		n := copy(p, c.first)
		c.first = c.first[n:]
		c.consumed = append(c.consumed, p[:n]...)
		c.mu.Unlock()
		return n, nil
	}
	c.mu.Unlock()
	c.once.Do(func() { close(c.atGate) })
	select {
	case <-c.gate:
	case <-time.After(2 * hangBound): // the harness never parks the code under test for good
	}
	c.mu.Lock()
	defer c.mu.Unlock()
	if len(c.rest) == 0 {
		return 0, io.EOF
	}
	n := copy(p, c.rest)
	c.rest = c.rest[n:]
	c.consumed = append(c.consumed, p[:n]...)
	return n, nil
}

func (c *splitConn) Write(p []byte) (int, error) {
	c.mu.Lock()
	c.wrote = append(c.wrote, p...)
	c.mu.Unlock()
	return len(p), nil
}

func (c *splitConn) Close() error { return nil }

type c34target struct {
	name     string
	run      func(io.ReadWriteCloser) error
	incoming []byte // what a conforming peer sends to this half
}

func c34Targets() []c34target {
	ver := versionBytes(mutagen.VersionMajor, mutagen.VersionMinor, mutagen.VersionPatch)
	return []c34target{
		{"agent.ClientHandshake", func(s io.ReadWriteCloser) error { return agent.ClientHandshake(s) }, specServerMagic},
		{"agent.ServerHandshake", func(s io.ReadWriteCloser) error { return agent.ServerHandshake(s) }, specClientMagic},
		{"mutagen.ClientVersionHandshake", mutagen.ClientVersionHandshake, ver},
		{"mutagen.ServerVersionHandshake", mutagen.ServerVersionHandshake, ver},
		{"client: magic then version", realClient("both"), append(append([]byte(nil), specServerMagic...), ver...)},
		{"server: magic then version", realServer("both"), append(append([]byte(nil), specClientMagic...), ver...)},
	}
}

// c34Interleaved runs the deterministic two-connection scenario.
func c34Interleaved(r *vk.Run) (hung bool) {
	for _, tg := range c34Targets() {
		n := len(tg.incoming)
		for corrupt := 0; corrupt <= n-1 && corrupt <= 4; corrupt++ { // corrupt = number of damaged leading bytes (0 = control)
			for split := 1; split <= n-1; split++ {
				if corrupt > split {
					continue // the damaged prefix arrives completely with the first read
				}
				for _, x := range []byte{0xff, 0x01, 0x80} {
					if corrupt == 0 && x != 0xff {
						continue
					}
					stream := append([]byte(nil), tg.incoming...)
					for i := 0; i < corrupt; i++ {
						stream[i] ^= x
					}
					desc := map[string]any{"function": tg.name, "damaged_leading_bytes": corrupt, "xor": x, "first_read_delivers": split, "stream_to_connection_1": hexs(stream), "conforming_stream": hexs(tg.incoming)}
					fmt.Printf("interleaved %s\n", vk.JSON(desc))
					c1 := newSplitConn(stream, split)
					var err1 error
					done1 := make(chan struct{})
					go func() { err1 = tg.run(c1); close(done1) }()
					// Connection 1 is parked between its two reads (or has already
					// rejected what the first read delivered) ...
					parkedOrDone := make(chan struct{})
					go func() {
						select {
						case <-c1.atGate:
						case <-done1:
						}
						close(parkedOrDone)
					}()
					if res := c34health.waitDone(parkedOrDone, hangBound); res != "ok" {
						if res == "hang" {
							r.Violation(map[string]string{"check": "handshake-hung", "case": "interleaved"}, "the handshake neither returned nor asked for the rest of its input", desc)
						} else {
							r.Inconclusive("scheduler-unhealthy")
						}
						close(c1.gate)
						return true
					}
					parked := false
					select {
					case <-c1.atGate:
						parked = true
					default:
					}
					// ... a second, valid connection completes the same handshake ...
					c2 := newSplitConn(tg.incoming, n)
					close(c2.gate)
					err2 := tg.run(c2)
					// ... and connection 1 gets the (good) rest of its stream.
					close(c1.gate)
					if res := c34health.waitDone(done1, hangBound); res != "ok" {
						if res == "hang" {
							r.Violation(map[string]string{"check": "handshake-hung", "case": "interleaved"}, "the parked handshake did not complete", desc)
						} else {
							r.Inconclusive("scheduler-unhealthy")
						}
						return true
					}
					if parked {
						r.Count("interleaved_cases_parked_between_reads", 1)
					}
					r.Eval(1)
					desc["connection_1_consumed"] = hexs(c1.consumed)
					desc["connection_1_result"] = fmt.Sprint(err1)
					desc["connection_2_result"] = fmt.Sprint(err2)
					if err2 != nil {
						r.Violation(map[string]string{"check": "clean-handshake-rejected", "handshake": tg.name, "case": "interleaved"}, fmt.Sprintf("%s on an undamaged connection failed while another handshake was in flight: %v", tg.name, err2), desc)
					}
					if corrupt == 0 {
						if err1 != nil {
							r.Violation(map[string]string{"check": "clean-handshake-rejected", "handshake": tg.name, "case": "interleaved-split"}, fmt.Sprintf("%s failed on an undamaged stream that arrived in two reads with another handshake in between: %v", tg.name, err1), desc)
						}
						r.Count("interleaved_controls_accepted", 1)
					} else {
						if err1 == nil {
							r.Violation(map[string]string{"check": "accepted-damaged-handshake", "case": "interleaved", "handshake": tg.name},
								fmt.Sprintf("%s returned nil after consuming %x (a conforming peer sends %x): a second, valid handshake ran between the two reads of the damaged one", tg.name, c1.consumed, tg.incoming), desc)
						}
						r.Count("interleaved_damaged_rejected", 1)
					}
					r.Distinct(fmt.Sprintf("interleaved|%s|%d|%d|%02x", tg.name, corrupt, split, x))
				}
			}
		}
	}
	return false
}

// c34Concurrent runs many undamaged and damaged handshakes at the same time
// through relays. With judge=false it only produces the workload (used from
// the race-detector build of this group as a bonus sensor).
func c34Concurrent(r *vk.Run, rounds int, judge bool) {
	for round := 0; round < rounds; round++ {
		var wg sync.WaitGroup
		for g := 0; g < 24; g++ {
			wg.Add(1)
			go func(g int) {
				defer wg.Done()
				which := []string{"both", "magic", "version"}[g%3]
				dmg := damage{Chunk: g % 4}
				if g%2 == 1 {
					dir := []string{"s2c", "c2s"}[(g/2)%2]
					dmg = damage{Dir: dir, Kind: "flip", At: (g / 4) % 3, Xor: 0xff, Chunk: 1}
				}
				o := runPair(realClient(which), realServer(which), dmg)
				if !judge {
					r.Count("handshake_pairs_under_race_detector", 1)
					return
				}
				r.Eval(1)
				if o.Hung != "" {
					r.Inconclusive("concurrent-handshake-" + o.Hung)
					return
				}
				if dmg.Dir == "" {
					if !o.ClientNil || !o.ServerNil {
						r.Violation(map[string]string{"check": "clean-handshake-rejected", "handshake": which, "case": "concurrent"}, fmt.Sprintf("undamaged %s handshake failed while others ran concurrently: client %q server %q", which, o.ClientErr, o.ServerErr), map[string]any{"handshake": which, "damage": dmg})
					}
					r.Count("concurrent_clean_accepted", 1)
					return
				}
				nilRes, consumed := o.ClientNil, o.ClientRead
				exp := expectedStream(which, specServerMagic)
				if dmg.Dir == "c2s" {
					nilRes, consumed, exp = o.ServerNil, o.ServerRead, expectedStream(which, specClientMagic)
				}
				if nilRes && !bytes.Equal(consumed, exp) {
					r.Violation(map[string]string{"check": "accepted-damaged-handshake", "case": "concurrent", "handshake": which}, fmt.Sprintf("a half returned nil after consuming %x (conforming: %x) while other handshakes ran concurrently", consumed, exp), map[string]any{"handshake": which, "damage": dmg})
				}
				r.Count("concurrent_damaged_rejected", 1)
			}(g)
		}
		wg.Wait()
	}
	if judge {
		r.Distinct("concurrent-rounds")
	}
}
