package main

import (
	"context"
	"encoding/binary"
	"fmt"
	"io"
	"math/rand"
	"os"
	"path/filepath"
	"runtime"
	"runtime/debug"
	"sort"
	"strings"
	"sync"
	"sync/atomic"
	"syscall"
	"time"
	"unicode/utf8"

	"google.golang.org/protobuf/proto"

	"github.com/mutagen-io/mutagen/pkg/filesystem/behavior"
	"github.com/mutagen-io/mutagen/pkg/logging"
	"github.com/mutagen-io/mutagen/pkg/synchronization"
	"github.com/mutagen-io/mutagen/pkg/synchronization/compression"
	"github.com/mutagen-io/mutagen/pkg/synchronization/core"
	"github.com/mutagen-io/mutagen/pkg/synchronization/core/ignore"
	"github.com/mutagen-io/mutagen/pkg/synchronization/endpoint/local"
	"github.com/mutagen-io/mutagen/pkg/synchronization/endpoint/remote"
	"github.com/mutagen-io/mutagen/pkg/synchronization/hashing"
	"github.com/mutagen-io/mutagen/pkg/synchronization/rsync"

	"verif/internal/fsx"
	"verif/internal/vk"
)

// ---------------------------------------------------------------- disk edits (applied identically to mirrored roots)

// diskOp is one edit, fully determined by its fields so that applying it to
// two identical roots leaves them identical (contents come from a seed; every
// written file gets an explicit, program-unique modification time, so "every
// content change alters size, mtime, identity or type" holds on both roots
// independently of the clock granularity).
type diskOp struct {
	Kind   string // write mkdir remove rename chmod symlink fifo bulk root-remove root-file root-dir root-link
	Path   string // root-relative, "" = the root itself
	Path2  string
	Size   int
	Seed   int64
	Mode   uint32
	Target string
	Mtime  int64
	Count  int
}

func (o diskOp) String() string {
	return fmt.Sprintf("%s %q %q size=%d seed=%d mode=%o target=%q n=%d", o.Kind, o.Path, o.Path2, o.Size, o.Seed, o.Mode, o.Target, o.Count)
}

func contentFor(seed int64, size int) []byte {
	b := make([]byte, size+8)
	x := uint64(seed)*0x9e3779b97f4a7c15 + 0x1234567
	for i := 0; i < size; i += 8 {
		x ^= x << 13
		x ^= x >> 7
		x ^= x << 17
		binary.LittleEndian.PutUint64(b[i:], x)
	}
	return b[:size]
}

func writeFileAt(full string, data []byte, mode os.FileMode, mtime int64) error {
	if err := os.WriteFile(full, data, 0o600); err != nil {
		return err
	}
	if err := os.Chmod(full, mode); err != nil {
		return err
	}
	t := time.Unix(mtime, 0)
	return os.Chtimes(full, t, t)
}

func applyOp(root string, o diskOp) error {
	full := filepath.Join(root, filepath.FromSlash(o.Path))
	switch o.Kind {
	case "write":
		return writeFileAt(full, contentFor(o.Seed, o.Size), os.FileMode(o.Mode), o.Mtime)
	case "mkdir":
		return os.Mkdir(full, 0o755)
	case "remove":
		return os.RemoveAll(full)
	case "rename":
		return os.Rename(full, filepath.Join(root, filepath.FromSlash(o.Path2)))
	case "chmod":
		return os.Chmod(full, os.FileMode(o.Mode))
	case "symlink":
		os.Remove(full)
		return os.Symlink(o.Target, full)
	case "fifo":
		return syscall.Mkfifo(full, 0o644)
	case "bulk":
		// a directory with Count files (small, distinct contents) in sub-directories of 100
		if err := os.MkdirAll(full, 0o755); err != nil {
			return err
		}
		for i := 0; i < o.Count; i++ {
			d := filepath.Join(full, fmt.Sprintf("d%02d", i/100))
			if i%100 == 0 {
				if err := os.MkdirAll(d, 0o755); err != nil {
					return err
				}
			}
			if err := writeFileAt(filepath.Join(d, fmt.Sprintf("f%04d.dat", i)), contentFor(o.Seed+int64(i), 8+i%90), 0o644, o.Mtime); err != nil {
				return err
			}
		}
		return nil
	case "bulk-touch":
		// rewrite every Count-th file below Path with new content
		n := 0
		return filepath.Walk(full, func(p string, fi os.FileInfo, err error) error {
			if err != nil || !fi.Mode().IsRegular() {
				return nil
			}
			n++
			if n%o.Count == 0 {
				return writeFileAt(p, contentFor(o.Seed+int64(n), 5+n%70), 0o644, o.Mtime)
			}
			return nil
		})
	case "root-remove":
		return os.RemoveAll(root)
	case "root-file":
		if err := os.RemoveAll(root); err != nil {
			return err
		}
		return writeFileAt(root, contentFor(o.Seed, o.Size), os.FileMode(o.Mode), o.Mtime)
	case "root-dir":
		if err := os.RemoveAll(root); err != nil {
			return err
		}
		return os.Mkdir(root, 0o755)
	case "root-link":
		if err := os.RemoveAll(root); err != nil {
			return err
		}
		return os.Symlink(o.Target, root)
	}
	return fmt.Errorf("unknown op %s", o.Kind)
}

type diskListing struct {
	files, dirs, links, all []string
	rootKind                string // dir file link absent other
}

func listRoot(root string) diskListing {
	var l diskListing
	fi, err := os.Lstat(root)
	switch {
	case err != nil:
		l.rootKind = "absent"
		return l
	case fi.Mode().IsRegular():
		l.rootKind = "file"
		return l
	case fi.Mode()&os.ModeSymlink != 0:
		l.rootKind = "link"
		return l
	case !fi.IsDir():
		l.rootKind = "other"
		return l
	}
	l.rootKind = "dir"
	filepath.Walk(root, func(p string, fi os.FileInfo, err error) error {
		if err != nil || p == root {
			return nil
		}
		rel, _ := filepath.Rel(root, p)
		rel = filepath.ToSlash(rel)
		if strings.HasPrefix(fi.Name(), ".mutagen-temporary-") {
			// internal staging roots and probe files belong to the endpoint and
			// are named after the per-side session: never an edit target
			if fi.IsDir() {
				return filepath.SkipDir
			}
			return nil
		}
		if strings.HasPrefix(rel, "big") && strings.Count(rel, "/") >= 1 {
			// contents of bulk directories are not individual edit targets
			if fi.IsDir() {
				return filepath.SkipDir
			}
			return nil
		}
		l.all = append(l.all, rel)
		switch {
		case fi.IsDir():
			l.dirs = append(l.dirs, rel)
		case fi.Mode().IsRegular():
			l.files = append(l.files, rel)
		case fi.Mode()&os.ModeSymlink != 0:
			l.links = append(l.links, rel)
		}
		return nil
	})
	return l
}

var c21Names = []string{"a", "b", "c", "dir", "file.txt", "x.o", "sub", "data", "keep", "build", ".git", "README", "é", "with space", "bad\xffname"}
var c21Targets = []string{"a", "file.txt", "../a", "./b", "sub/x", "/etc/passwd", "../../outside", "..", ".", "a//b", "a/../..", "c:d", "e\\f", "dir/../keep"}

func c21Size(r *rand.Rand) int {
	switch r.Intn(10) {
	case 0:
		return 0
	case 1:
		return 1 + r.Intn(16)
	case 2:
		b := []int{1024, 2048, 4096, 8192, 65536}[r.Intn(5)]
		return b - 2 + r.Intn(5)
	case 3:
		return r.Intn(200 * 1024)
	default:
		return 20 + r.Intn(3000)
	}
}

// isFifoName: FIFOs are created only under names fifoN and never renamed, so
// that no staging or supplying operation is ever asked to open one: the local
// endpoint opens base files without O_NONBLOCK and would block forever on a
// FIFO (observed; not a local/remote difference, hence outside this property).
func isFifoName(p string) bool {
	return strings.HasPrefix(filepath.Base(p), "fifo")
}

// genOp draws one edit for a root whose current state is l. clock supplies
// unique modification times.
func genOp(r *rand.Rand, l diskListing, clock *int64, allowRootChange, allowBulk bool) diskOp {
	tick := func() int64 { *clock++; return *clock }
	if l.rootKind != "dir" {
		// bring the root back (or change its kind again)
		switch r.Intn(4) {
		case 0:
			return diskOp{Kind: "root-file", Size: c21Size(r), Seed: r.Int63(), Mode: 0o644, Mtime: tick()}
		default:
			return diskOp{Kind: "root-dir"}
		}
	}
	pickDir := func() string {
		if len(l.dirs) == 0 || r.Intn(3) == 0 {
			return ""
		}
		return l.dirs[r.Intn(len(l.dirs))]
	}
	join := func(d, n string) string {
		if d == "" {
			return n
		}
		return d + "/" + n
	}
	newName := func() string {
		n := c21Names[r.Intn(len(c21Names))]
		if r.Intn(2) == 0 {
			n = fmt.Sprintf("%s%d", n, r.Intn(20))
		}
		return n
	}
	exists := func(p string) bool {
		for _, q := range l.all {
			if q == p {
				return true
			}
		}
		return false
	}
	modes := []uint32{0o644, 0o755, 0o600, 0o700, 0o640}
	for attempt := 0; attempt < 30; attempt++ {
		switch r.Intn(16) {
		case 0, 1, 2: // new file
			p := join(pickDir(), newName())
			if exists(p) {
				continue
			}
			return diskOp{Kind: "write", Path: p, Size: c21Size(r), Seed: r.Int63(), Mode: modes[r.Intn(len(modes))], Mtime: tick()}
		case 3, 4: // overwrite (sometimes with the same size)
			if len(l.files) == 0 {
				continue
			}
			p := l.files[r.Intn(len(l.files))]
			return diskOp{Kind: "write", Path: p, Size: c21Size(r), Seed: r.Int63(), Mode: modes[r.Intn(len(modes))], Mtime: tick()}
		case 5: // mkdir
			p := join(pickDir(), newName())
			if exists(p) {
				continue
			}
			return diskOp{Kind: "mkdir", Path: p}
		case 6: // remove anything
			if len(l.all) == 0 {
				continue
			}
			return diskOp{Kind: "remove", Path: l.all[r.Intn(len(l.all))]}
		case 7: // rename
			if len(l.all) == 0 {
				continue
			}
			p := l.all[r.Intn(len(l.all))]
			q := join(pickDir(), newName())
			if exists(q) || strings.HasPrefix(q+"/", p+"/") || isFifoName(p) {
				continue
			}
			return diskOp{Kind: "rename", Path: p, Path2: q}
		case 8: // chmod
			if len(l.files) == 0 {
				continue
			}
			return diskOp{Kind: "chmod", Path: l.files[r.Intn(len(l.files))], Mode: modes[r.Intn(len(modes))]}
		case 9: // symlink create / retarget
			p := join(pickDir(), newName())
			if len(l.links) > 0 && r.Intn(2) == 0 {
				p = l.links[r.Intn(len(l.links))]
			} else if exists(p) {
				continue
			}
			return diskOp{Kind: "symlink", Path: p, Target: c21Targets[r.Intn(len(c21Targets))]}
		case 10: // fifo, under a name no file ever gets on either root (see isFifoName)
			p := join(pickDir(), fmt.Sprintf("fifo%d", r.Intn(50)))
			if exists(p) {
				continue
			}
			return diskOp{Kind: "fifo", Path: p}
		case 11: // copy of an existing file's content under a new name (rename/copy detection while staging)
			if len(l.files) == 0 {
				continue
			}
			p := join(pickDir(), newName())
			if exists(p) {
				continue
			}
			return diskOp{Kind: "copy", Path: l.files[r.Intn(len(l.files))], Path2: p, Mtime: tick()}
		case 12: // large snapshot: a directory with many files, or touching / removing one
			if !allowBulk {
				continue
			}
			for _, d := range l.dirs {
				if strings.HasPrefix(d, "big") && !strings.Contains(d, "/") {
					if r.Intn(3) == 0 {
						return diskOp{Kind: "remove", Path: d}
					}
					return diskOp{Kind: "bulk-touch", Path: d, Count: 1 + r.Intn(40), Seed: r.Int63(), Mtime: tick()}
				}
			}
			return diskOp{Kind: "bulk", Path: fmt.Sprintf("big%d", r.Intn(3)), Count: 300 + r.Intn(1500), Seed: r.Int63(), Mtime: tick()}
		case 13: // root kind change
			if !allowRootChange {
				continue
			}
			switch r.Intn(4) {
			case 0:
				return diskOp{Kind: "root-remove"}
			case 1:
				return diskOp{Kind: "root-file", Size: c21Size(r), Seed: r.Int63(), Mode: 0o644, Mtime: tick()}
			case 2:
				return diskOp{Kind: "root-dir"}
			default:
				return diskOp{Kind: "root-link", Target: "nowhere"}
			}
		default: // add a child to an existing directory
			if len(l.dirs) == 0 {
				continue
			}
			p := join(l.dirs[r.Intn(len(l.dirs))], newName())
			if exists(p) {
				continue
			}
			return diskOp{Kind: "write", Path: p, Size: c21Size(r), Seed: r.Int63(), Mode: 0o644, Mtime: tick()}
		}
	}
	return diskOp{Kind: "write", Path: fmt.Sprintf("fallback%d", r.Intn(1000)), Size: 10, Seed: r.Int63(), Mode: 0o644, Mtime: tick()}
}

// ---------------------------------------------------------------- recording supply receiver

// recorder is an rsync.Encoder that keeps a copy of every transmission; it is
// the only way to observe what Supply emits (rsync.Receiver cannot be
// implemented outside its package), and it can replay the stream into the
// real receiver returned by Stage.
type recorder struct {
	list      []*rsync.Transmission
	finalized bool
	pos       int
}

func (r *recorder) Encode(t *rsync.Transmission) error {
	r.list = append(r.list, proto.Clone(t).(*rsync.Transmission))
	return nil
}
func (r *recorder) Finalize() error { r.finalized = true; return nil }

// Decode / Finalize make the recorder an rsync.Decoder over what it recorded.
type replayer struct{ rec *recorder }

func (p replayer) Decode(t *rsync.Transmission) error {
	if p.rec.pos >= len(p.rec.list) {
		return io.ErrUnexpectedEOF
	}
	proto.Merge(t, p.rec.list[p.rec.pos])
	p.rec.pos++
	return nil
}
func (p replayer) Finalize() error { return nil }

// ---------------------------------------------------------------- one side (local or remote)

type c21Side struct {
	name    string // "L" or "R"
	base    string // directory holding roots a and b
	session string
	ep      map[string]synchronization.Endpoint // "a", "b"
	served  []chan error
	streams []io.Closer
}

func (s *c21Side) root(which string) string { return filepath.Join(s.base, which) }

// norm removes what legitimately differs between the two sides from a text.
func (s *c21Side) norm(t string) string {
	t = strings.ReplaceAll(t, s.base, "<base>")
	t = strings.ReplaceAll(t, s.session, "<session>")
	return t
}

func (s *c21Side) shutdown() {
	for _, e := range s.ep {
		if e != nil {
			e.Shutdown()
		}
	}
	for _, c := range s.streams {
		c.Close()
	}
	for _, ch := range s.served {
		select {
		case <-ch:
		case <-time.After(30 * time.Second):
		}
	}
}

// ---------------------------------------------------------------- observations and comparison

func normEntry(e *core.Entry, s *c21Side) {
	if e == nil {
		return
	}
	if e.Problem != "" {
		e.Problem = s.norm(e.Problem)
	}
	for _, c := range e.Contents {
		normEntry(c, s)
	}
}

func cloneSnapshot(sn *core.Snapshot, s *c21Side) *core.Snapshot {
	if sn == nil {
		return nil
	}
	c := proto.Clone(sn).(*core.Snapshot)
	normEntry(c.Content, s)
	return c
}

func entriesEqual(a, b *core.Entry) bool {
	if a == nil || b == nil {
		return a == nil && b == nil
	}
	return proto.Equal(a, b)
}

func snapshotsEqual(a, b *core.Snapshot) string {
	if a == nil || b == nil {
		if a == nil && b == nil {
			return ""
		}
		return "one snapshot is nil"
	}
	if (a.Content == nil) != (b.Content == nil) {
		return fmt.Sprintf("content nil: local=%v remote=%v", a.Content == nil, b.Content == nil)
	}
	if a.PreservesExecutability != b.PreservesExecutability || a.DecomposesUnicode != b.DecomposesUnicode {
		return "behaviour flags differ"
	}
	if a.Directories != b.Directories || a.Files != b.Files || a.SymbolicLinks != b.SymbolicLinks || a.TotalFileSize != b.TotalFileSize {
		return fmt.Sprintf("counters differ: local=(%d,%d,%d,%d) remote=(%d,%d,%d,%d)", a.Directories, a.Files, a.SymbolicLinks, a.TotalFileSize, b.Directories, b.Files, b.SymbolicLinks, b.TotalFileSize)
	}
	if !proto.Equal(a, b) {
		return "content differs at " + firstEntryDifference("", a.Content, b.Content)
	}
	return ""
}

func firstEntryDifference(p string, a, b *core.Entry) string {
	if a == nil || b == nil {
		return fmt.Sprintf("%q (present: local=%v remote=%v)", p, a != nil, b != nil)
	}
	if a.Kind != b.Kind || a.Executable != b.Executable || string(a.Digest) != string(b.Digest) || a.Target != b.Target || a.Problem != b.Problem {
		return fmt.Sprintf("%q (local kind=%v x=%v digest=%x target=%q problem=%q; remote kind=%v x=%v digest=%x target=%q problem=%q)", p,
			a.Kind, a.Executable, a.Digest, a.Target, a.Problem, b.Kind, b.Executable, b.Digest, b.Target, b.Problem)
	}
	names := map[string]bool{}
	for n := range a.Contents {
		names[n] = true
	}
	for n := range b.Contents {
		names[n] = true
	}
	var sorted []string
	for n := range names {
		sorted = append(sorted, n)
	}
	sort.Strings(sorted)
	for _, n := range sorted {
		q := n
		if p != "" {
			q = p + "/" + n
		}
		if !entriesEqual(a.Contents[n], b.Contents[n]) {
			return firstEntryDifference(q, a.Contents[n], b.Contents[n])
		}
	}
	return fmt.Sprintf("%q (no field-level difference found)", p)
}

func normProblems(ps []*core.Problem, s *c21Side) []string {
	out := make([]string, len(ps))
	for i, p := range ps {
		out[i] = p.Path + "\x00" + s.norm(p.Error)
	}
	// The order of transition problems follows Go map iteration inside
	// core.Transition and is not specified; compare as a multiset.
	sort.Strings(out)
	return out
}

// ---------------------------------------------------------------- program

type c21Program struct {
	Index   int
	Seed    int64
	Steps   int
	cfg     *synchronization.Configuration
	Alg     string
	Debug   bool
	Journal []string
}

func randomC21Config(r *rand.Rand) (*synchronization.Configuration, string) {
	c := &synchronization.Configuration{WatchMode: synchronization.WatchMode_WatchModeNoWatch}
	alg := "default(deflate)"
	switch r.Intn(3) {
	case 0:
		c.CompressionAlgorithm = compression.Algorithm_AlgorithmNone
		alg = "none"
	case 1:
		c.CompressionAlgorithm = compression.Algorithm_AlgorithmDeflate
		alg = "deflate"
	}
	c.SynchronizationMode = []core.SynchronizationMode{0, core.SynchronizationMode_SynchronizationModeTwoWaySafe, core.SynchronizationMode_SynchronizationModeTwoWayResolved, core.SynchronizationMode_SynchronizationModeOneWayReplica}[r.Intn(4)]
	c.SymbolicLinkMode = []core.SymbolicLinkMode{0, core.SymbolicLinkMode_SymbolicLinkModePortable, core.SymbolicLinkMode_SymbolicLinkModeIgnore, core.SymbolicLinkMode_SymbolicLinkModePOSIXRaw}[r.Intn(4)]
	c.PermissionsMode = []core.PermissionsMode{0, core.PermissionsMode_PermissionsModePortable, core.PermissionsMode_PermissionsModeManual}[r.Intn(3)]
	c.HashingAlgorithm = []hashing.Algorithm{0, hashing.Algorithm_AlgorithmSHA1, hashing.Algorithm_AlgorithmSHA256}[r.Intn(3)]
	c.ProbeMode = []behavior.ProbeMode{0, behavior.ProbeMode_ProbeModeProbe, behavior.ProbeMode_ProbeModeAssume}[r.Intn(3)]
	c.ScanMode = []synchronization.ScanMode{0, synchronization.ScanMode_ScanModeFull, synchronization.ScanMode_ScanModeAccelerated}[r.Intn(3)]
	c.StageMode = []synchronization.StageMode{0, synchronization.StageMode_StageModeMutagen, synchronization.StageMode_StageModeNeighboring, synchronization.StageMode_StageModeInternal}[r.Intn(4)]
	c.IgnoreVCSMode = []ignore.IgnoreVCSMode{0, ignore.IgnoreVCSMode_IgnoreVCSModeIgnore, ignore.IgnoreVCSMode_IgnoreVCSModePropagate}[r.Intn(3)]
	if r.Intn(3) == 0 {
		c.IgnoreSyntax = ignore.Syntax_SyntaxDocker
	}
	switch r.Intn(4) {
	case 0:
		c.Ignores = []string{"*.o"}
	case 1:
		c.Ignores = []string{"build", "!keep"}
	}
	if r.Intn(6) == 0 {
		c.MaximumEntryCount = uint64(3 + r.Intn(40))
	}
	if r.Intn(6) == 0 {
		c.MaximumStagingFileSize = uint64(100 + r.Intn(5000))
	}
	if c.PermissionsMode != core.PermissionsMode_PermissionsModeManual {
		c.DefaultFileMode = []uint32{0, 0o600, 0o644, 0o640}[r.Intn(4)]
	} else {
		c.DefaultFileMode = []uint32{0, 0o600, 0o755}[r.Intn(3)]
	}
	c.DefaultDirectoryMode = []uint32{0, 0o700, 0o755}[r.Intn(3)]
	if r.Intn(5) == 0 {
		c.DefaultOwner = "id:0"
	}
	return c, alg
}

var c21MaxEntries atomic.Int64

// stepResult carries what one step observed, for the evidence signature.
type stepOutcome struct {
	kind  string
	class string
	fatal bool // the program cannot continue (an endpoint legitimately ended, or a violation was found)
}

type c21Run struct {
	r    *vk.Run
	p    *c21Program
	rng  *rand.Rand
	L, R *c21Side
	// last successful snapshots per root, as returned by the LOCAL side (the
	// remote one has been compared equal)
	snap  map[string]*core.Snapshot
	clock int64
	step  int
	dead  bool
	jmu   sync.Mutex
	// dirty[root]: the root's disk was changed (edit or transition) after the
	// endpoint's last scan of it, so the endpoint's cache may name files that
	// are gone or different.
	dirty map[string]bool
	// stagedSinceScan[root]: Stage was called on the root's endpoint after its last scan
	stagedSinceScan map[string]bool
	ready           bool // endpoints exist
	bulkRoot        string
	forceAncestor   bool // the next scans pass forcedAncestor (may be nil)
	forcedAncestor  *core.Entry
	kindRoot        string       // root-kind program: the root whose kind changes
	neverPopulated  bool         // ... and it did not exist when the endpoints were created
	progressNs      atomic.Int64 // time of the last step start (watchdog)
	curOp           string       // operation of the current step (under jmu)
}

func (x *c21Run) log(format string, a ...any) {
	line := fmt.Sprintf("step %d: ", x.step) + fmt.Sprintf(format, a...)
	x.jmu.Lock()
	x.p.Journal = append(x.p.Journal, line)
	if !strings.HasPrefix(format, "edit") {
		x.curOp = strings.SplitN(fmt.Sprintf(format, a...), "(", 2)[0]
	}
	x.jmu.Unlock()
	x.progressNs.Store(time.Now().UnixNano())
	if x.p.Debug {
		fmt.Printf("C21 program %d %s\n", x.p.Index, line)
	}
}

func (x *c21Run) violation(rule, op, what string, extra map[string]any) {
	x.violationSig(map[string]string{"rule": rule, "operation": op}, what, extra)
}

func (x *c21Run) violationSig(sig map[string]string, what string, extra map[string]any) {
	op := sig["operation"]
	x.jmu.Lock()
	journal := append([]string(nil), x.p.Journal...)
	x.jmu.Unlock()
	w := map[string]any{
		"program": x.p.Index, "program_seed": x.p.Seed, "step": x.step, "operation": op,
		"configuration": cfgJSON(x.p.cfg), "compression": x.p.Alg, "journal": journal,
	}
	for k, v := range extra {
		w[k] = v
	}
	x.r.Violation(sig, fmt.Sprintf("program %d step %d (%s): %s", x.p.Index, x.step, op, what), w)
	x.dead = true
}

func errText(e error) string {
	if e == nil {
		return "<nil>"
	}
	return e.Error()
}

// both runs f on the local and on the remote side. The two calls are
// sequential: both sides are deterministic given the same disk state.
func (x *c21Run) sides() [2]*c21Side { return [2]*c21Side{x.L, x.R} }

func (x *c21Run) edit(which string, n int, allowRoot, allowBulk bool) stepOutcome {
	kinds := ""
	if n > 0 {
		x.dirty[which] = true
	}
	for i := 0; i < n; i++ {
		l := listRoot(x.L.root(which))
		op := genOp(x.rng, l, &x.clock, allowRoot, allowBulk)
		x.log("edit %s: %s", which, op)
		if op.Kind == "copy" {
			data, err := os.ReadFile(filepath.Join(x.L.root(which), filepath.FromSlash(op.Path)))
			if err != nil {
				continue
			}
			for _, s := range x.sides() {
				writeFileAt(filepath.Join(s.root(which), filepath.FromSlash(op.Path2)), data, 0o644, op.Mtime)
			}
		} else {
			el := applyOp(x.L.root(which), op)
			er := applyOp(x.R.root(which), op)
			if (el == nil) != (er == nil) {
				// the harness failed to mirror an edit: nothing can be concluded from this program
				x.log("edit mirrored unequally: %v / %v", el, er)
				x.r.Inconclusive("edit-not-mirrored")
				x.dead = true
				return stepOutcome{kind: "edit", fatal: true}
			}
		}
		kinds += op.Kind + ","
		x.r.Count("edits", 1)
		scanNow := false
		if strings.HasPrefix(op.Kind, "root-") {
			x.r.Count("edits_root_kind", 1)
			scanNow = true
		}
		if strings.HasPrefix(op.Kind, "bulk") || (op.Kind == "remove" && strings.HasPrefix(op.Path, "big")) {
			x.r.Count("edits_bulk", 1)
			scanNow = true
		}
		if scanNow && x.ready {
			// observe root kind changes and large deltas right away (the next
			// edit usually restores the root)
			if o := x.scan(which, x.rng.Intn(2) == 0); o.fatal || x.dead {
				return stepOutcome{kind: "edit", fatal: true}
			} else if o.class != "" {
				x.r.Distinct(fmt.Sprintf("scan|%s|%s", o.class, x.p.Alg))
			}
		}
	}
	return stepOutcome{kind: "edit", class: ""}
}

func (x *c21Run) scan(which string, full bool) stepOutcome {
	op := fmt.Sprintf("Scan(%s,full=%v)", which, full)
	x.log("%s", op)
	x.dirty[which] = false
	x.stagedSinceScan[which] = false
	var snaps [2]*core.Snapshot
	var errs [2]error
	var again [2]bool
	// The ancestor argument seeds the remote client's delta base as long as it
	// has not received a populated snapshot (first scan, or after scans of an
	// absent root). The controller passes its archive there, which usually
	// resembles the disk; do the same: an independent walk of the root for a
	// first scan, else the last snapshot of this root or of the other root, or nil.
	var anc *core.Entry
	other := map[string]string{"a": "b", "b": "a"}[which]
	switch prev := x.snap[which]; {
	case x.forceAncestor:
		anc = x.forcedAncestor
		if anc != nil {
			x.r.Count("scans_with_forced_non_nil_ancestor", 1)
		}
	case prev == nil && x.rng.Intn(4) != 0:
		slm, pm := x.p.cfg.SymbolicLinkMode, x.p.cfg.PermissionsMode
		if slm.IsDefault() {
			slm = core.SymbolicLinkMode_SymbolicLinkModePortable
		}
		if pm.IsDefault() {
			pm = core.PermissionsMode_PermissionsModePortable
		}
		if w, _, err := fsx.Walk(x.L.root(which), fsx.WalkOptions{SymbolicLinkMode: slm, PermissionsMode: pm}); err == nil && w != nil && w.EnsureValid(false) == nil {
			anc = w
			x.r.Count("scans_with_walked_ancestor", 1)
		}
	case prev != nil && x.rng.Intn(3) == 0:
		anc = prev.Content
	case x.snap[other] != nil && x.rng.Intn(2) == 0:
		anc = x.snap[other].Content
	}
	for i, s := range x.sides() {
		sn, err, ta := s.ep[which].Scan(context.Background(), anc, full)
		snaps[i], errs[i], again[i] = cloneSnapshot(sn, s), err, ta
	}
	x.r.Count("scans", 1)
	if (errs[0] == nil) != (errs[1] == nil) {
		x.violation("error-mismatch", "Scan", fmt.Sprintf("local error %s, remote error %s", errText(errs[0]), errText(errs[1])), nil)
		return stepOutcome{kind: "scan", fatal: true}
	}
	if again[0] != again[1] {
		x.violation("try-again-mismatch", "Scan", fmt.Sprintf("tryAgain local=%v remote=%v (errors %s / %s)", again[0], again[1], errText(errs[0]), errText(errs[1])), nil)
		return stepOutcome{kind: "scan", fatal: true}
	}
	if errs[0] != nil {
		x.r.Count("scans_with_error_on_both", 1)
		x.log("scan error on both: %v", errs[0])
		x.snap[which] = nil
		return stepOutcome{kind: "scan", class: fmt.Sprintf("error,again=%v", again[0])}
	}
	if d := snapshotsEqual(snaps[0], snaps[1]); d != "" {
		x.violation("snapshot-mismatch", "Scan", d, map[string]any{"local_counts": []uint64{snaps[0].GetDirectories(), snaps[0].GetFiles(), snaps[0].GetSymbolicLinks()}, "remote_counts": []uint64{snaps[1].GetDirectories(), snaps[1].GetFiles(), snaps[1].GetSymbolicLinks()}})
		return stepOutcome{kind: "scan", fatal: true}
	}
	x.snap[which] = snaps[0]
	sz := proto.Size(snaps[0])
	x.r.Count("snapshot_bytes_compared", int64(sz))
	entries := int64(snaps[0].Content.Count())
	for {
		cur := c21MaxEntries.Load()
		if entries <= cur || c21MaxEntries.CompareAndSwap(cur, entries) {
			break
		}
	}
	if entries >= 300 {
		x.r.Count("scans_of_large_snapshots(>=300 entries)", 1)
	}
	rootKind := "absent"
	if c := snaps[0].Content; c != nil {
		rootKind = c.Kind.String()
		if len(c.Problems()) > 0 {
			x.r.Count("scans_with_problem_entries", 1)
		}
	} else {
		x.r.Count("scans_of_absent_root", 1)
	}
	return stepOutcome{kind: "scan", class: fmt.Sprintf("%s,%s", rootKind, sizeClass(sz))}
}

type fileRef struct {
	path   string
	digest []byte
}

func collectFiles(p string, e *core.Entry, out *[]fileRef) {
	if e == nil {
		return
	}
	if e.Kind == core.EntryKind_File {
		*out = append(*out, fileRef{p, e.Digest})
	}
	names := make([]string, 0, len(e.Contents))
	for n := range e.Contents {
		names = append(names, n)
	}
	sort.Strings(names)
	for _, n := range names {
		q := n
		if p != "" {
			q = p + "/" + n
		}
		collectFiles(q, e.Contents[n], out)
	}
}

func entryAt(e *core.Entry, path string) *core.Entry {
	if path == "" {
		return e
	}
	for _, c := range strings.Split(path, "/") {
		if e == nil {
			return nil
		}
		e = e.Contents[c]
	}
	return e
}

// stageAndSupply stages on dst the files dst lacks relative to src's last
// snapshot, supplies them from src, and compares every returned value.
func (x *c21Run) stageAndSupply(src, dst string) stepOutcome {
	ss, ds := x.snap[src], x.snap[dst]
	if ss == nil || ds == nil {
		return stepOutcome{kind: "stage", class: "skipped"}
	}
	var have []fileRef
	collectFiles("", ss.Content, &have)
	var want []fileRef
	for _, f := range have {
		d := entryAt(ds.Content, f.path)
		if d == nil || d.Kind != core.EntryKind_File || string(d.Digest) != string(f.digest) {
			want = append(want, f)
		}
	}
	// variations: a random subset, some entries dst already has (must be
	// found locally), a wrong digest, a path that does not exist on src
	if len(want) > 0 && x.rng.Intn(3) == 0 {
		x.rng.Shuffle(len(want), func(i, j int) { want[i], want[j] = want[j], want[i] })
		want = want[:1+x.rng.Intn(len(want))]
		sort.Slice(want, func(i, j int) bool { return want[i].path < want[j].path })
	}
	if len(have) > 0 && x.rng.Intn(3) != 0 {
		// files dst may already hold (same path and digest, or the digest under
		// another path): they must be sourced locally, giving a proper subset
		for k := 0; k < 1+x.rng.Intn(4); k++ {
			want = append(want, have[x.rng.Intn(len(have))])
		}
	}
	if x.rng.Intn(5) == 0 {
		want = append(want, fileRef{fmt.Sprintf("ghost%d", x.rng.Intn(100)), contentFor(x.rng.Int63(), len(firstDigest(have)))})
	}
	if len(want) > 0 && x.rng.Intn(6) == 0 {
		i := x.rng.Intn(len(want))
		want[i] = fileRef{want[i].path, contentFor(x.rng.Int63(), len(want[i].digest))}
	}
	// de-duplicate paths (a path may be requested once)
	seen := map[string]bool{}
	var req []fileRef
	for _, f := range want {
		if !seen[f.path] && len(f.digest) > 0 {
			seen[f.path] = true
			req = append(req, f)
		}
	}
	// The local endpoint satisfies a request from its own root through a
	// digest -> path map built from its cache by walking a Go map: when several
	// cached files share a requested digest, WHICH one it opens is not
	// determined, and if the disk changed since the scan one candidate may be
	// gone while another is still there. The outcome is then not a function of
	// the inputs on either side, so that situation is avoided: rescan first.
	if x.dirty[dst] {
		holders := map[string]int{}
		var dfiles []fileRef
		collectFiles("", ds.Content, &dfiles)
		for _, f := range dfiles {
			holders[string(f.digest)]++
		}
		for _, f := range req {
			if holders[string(f.digest)] > 1 {
				x.r.Count("stages_preceded_by_rescan_for_determinism", 1)
				if o := x.scan(dst, true); o.fatal || x.dead || x.snap[dst] == nil {
					return stepOutcome{kind: "stage", class: "skipped", fatal: o.fatal}
				}
				break
			}
		}
	}
	readOnly := dst == "a" && (x.p.cfg.SynchronizationMode == core.SynchronizationMode_SynchronizationModeOneWayReplica || x.p.cfg.SynchronizationMode == core.SynchronizationMode_SynchronizationModeOneWaySafe)
	op := fmt.Sprintf("Stage(%s<-%s,%d paths)", dst, src, len(req))
	x.log("%s", op)

	var reqPaths [2][]string
	var outPaths [2][]string
	var sigs [2][]*rsync.Signature
	var recvs [2]rsync.Receiver
	var errs [2]error
	for i, s := range x.sides() {
		paths := make([]string, len(req))
		digests := make([][]byte, len(req))
		for j, f := range req {
			paths[j] = f.path
			digests[j] = append([]byte(nil), f.digest...)
		}
		reqPaths[i] = append([]string(nil), paths...)
		p, sg, rc, err := s.ep[dst].Stage(paths, digests)
		outPaths[i], sigs[i], recvs[i], errs[i] = append([]string(nil), p...), sg, rc, err
	}
	if len(req) > 0 {
		x.stagedSinceScan[dst] = true
	}
	x.r.Count("stages", 1)
	if (errs[0] == nil) != (errs[1] == nil) {
		sig := map[string]string{"rule": "error-mismatch", "operation": "Stage"}
		if len(req) == 0 && readOnly {
			sig["case"] = "empty-request-on-read-only-endpoint"
		}
		x.violationSig(sig, fmt.Sprintf("local error %s, remote error %s", errText(errs[0]), errText(errs[1])), map[string]any{"requested": reqPaths[0]})
		return stepOutcome{kind: "stage", fatal: true}
	}
	if errs[0] != nil {
		// A failed Stage ends the remote server by design; nothing after it is comparable.
		x.r.Count("stages_with_error_on_both", 1)
		x.log("stage error on both: %v", errs[0])
		return stepOutcome{kind: "stage", class: "error", fatal: true}
	}
	if strings.Join(outPaths[0], "\x00") != strings.Join(outPaths[1], "\x00") || len(outPaths[0]) != len(outPaths[1]) {
		x.violation("staged-paths-mismatch", "Stage", fmt.Sprintf("required paths differ: local %d %q, remote %d %q", len(outPaths[0]), trimList(outPaths[0]), len(outPaths[1]), trimList(outPaths[1])), map[string]any{"requested": reqPaths[0]})
		return stepOutcome{kind: "stage", fatal: true}
	}
	if len(sigs[0]) != len(sigs[1]) {
		x.violation("signatures-mismatch", "Stage", fmt.Sprintf("signature count local %d remote %d", len(sigs[0]), len(sigs[1])), nil)
		return stepOutcome{kind: "stage", fatal: true}
	}
	for i := range sigs[0] {
		if !proto.Equal(sigs[0][i], sigs[1][i]) {
			x.violation("signatures-mismatch", "Stage", fmt.Sprintf("signature %d (path %q) differs", i, outPaths[0][i]), nil)
			return stepOutcome{kind: "stage", fatal: true}
		}
	}
	if (recvs[0] == nil) != (recvs[1] == nil) {
		x.violation("receiver-mismatch", "Stage", fmt.Sprintf("receiver nil: local=%v remote=%v", recvs[0] == nil, recvs[1] == nil), nil)
		return stepOutcome{kind: "stage", fatal: true}
	}
	class := "none-required"
	switch {
	case len(req) == 0:
		class = "empty-request"
	case len(outPaths[0]) == len(req):
		class = "all-required"
		x.r.Count("stages_all_required", 1)
	case len(outPaths[0]) > 0:
		class = "subset-required"
		x.r.Count("stages_proper_subset_required", 1)
	default:
		x.r.Count("stages_nothing_required", 1)
	}
	if recvs[0] == nil {
		return stepOutcome{kind: "stage", class: class}
	}

	// Optionally disturb the source between its scan and the supply.
	if x.rng.Intn(6) == 0 {
		x.edit(src, 1, false, false)
		if x.dead {
			return stepOutcome{kind: "stage", fatal: true}
		}
	}

	// Supply from src, recording the operations, then feed the receivers.
	sop := fmt.Sprintf("Supply(%s,%d paths)", src, len(outPaths[0]))
	x.log("%s", sop)
	var recs [2]*recorder
	var serrs [2]error
	for i, s := range x.sides() {
		recs[i] = &recorder{}
		serrs[i] = s.ep[src].Supply(append([]string(nil), outPaths[i]...), sigs[i], rsync.NewEncodingReceiver(recs[i]))
	}
	x.r.Count("supplies", 1)
	out := x.compareSupply(sop, recs, serrs)
	if out.fatal {
		// the receivers must still be finalized; the program ends here
		return out
	}
	var ferrs [2]error
	for i := range x.sides() {
		ferrs[i] = rsync.DecodeToReceiver(replayer{recs[i]}, uint64(len(outPaths[i])), recvs[i])
	}
	if (ferrs[0] == nil) != (ferrs[1] == nil) {
		x.violation("error-mismatch", "Receive", fmt.Sprintf("forwarding the supplied operations to the staging receiver: local error %s, remote error %s", errText(ferrs[0]), errText(ferrs[1])), nil)
		return stepOutcome{kind: "stage", fatal: true}
	}
	if ferrs[0] != nil {
		return stepOutcome{kind: "stage", class: class + ",receive-error", fatal: true}
	}
	// Barrier: the remote receiver only encodes and flushes; the server writes
	// the staged files while it drains that stream, asynchronously to the
	// client. Before the harness touches the disk again (the local receiver
	// finished synchronously) it makes a round trip on the same connection: a
	// Poll with an already cancelled context, which the server answers only
	// after serveStage has returned. Poll's result is compared as well.
	cctx, cancel := context.WithCancel(context.Background())
	cancel()
	var perrs [2]error
	for i, s := range x.sides() {
		perrs[i] = s.ep[dst].Poll(cctx)
	}
	x.r.Count("polls", 1)
	if (perrs[0] == nil) != (perrs[1] == nil) {
		x.violation("error-mismatch", "Poll", fmt.Sprintf("local error %s, remote error %s", errText(perrs[0]), errText(perrs[1])), nil)
		return stepOutcome{kind: "stage", fatal: true}
	}
	return stepOutcome{kind: "stage", class: class + "," + out.class}
}

func describeChanges(cs []*core.Change) []string {
	var out []string
	for _, c := range cs {
		kind := func(e *core.Entry) string {
			if e == nil {
				return "nil"
			}
			return fmt.Sprintf("%s(%d entries)", e.Kind, e.Count())
		}
		out = append(out, fmt.Sprintf("%q: %s -> %s", c.Path, kind(c.Old), kind(c.New)))
	}
	return out
}

func firstDigest(fs []fileRef) []byte {
	if len(fs) > 0 {
		return fs[0].digest
	}
	return make([]byte, 20)
}

func trimList(l []string) []string {
	if len(l) > 12 {
		return append(append([]string{}, l[:12]...), "...")
	}
	return l
}

func (x *c21Run) compareSupply(op string, recs [2]*recorder, serrs [2]error) stepOutcome {
	if (serrs[0] == nil) != (serrs[1] == nil) {
		x.violation("error-mismatch", "Supply", fmt.Sprintf("local error %s, remote error %s", errText(serrs[0]), errText(serrs[1])), nil)
		return stepOutcome{kind: "supply", fatal: true}
	}
	if len(recs[0].list) != len(recs[1].list) {
		x.violation("supply-operations-mismatch", "Supply", fmt.Sprintf("local emitted %d transmissions, remote %d", len(recs[0].list), len(recs[1].list)), nil)
		return stepOutcome{kind: "supply", fatal: true}
	}
	var data, blocks, errors int
	for i := range recs[0].list {
		a := proto.Clone(recs[0].list[i]).(*rsync.Transmission)
		b := proto.Clone(recs[1].list[i]).(*rsync.Transmission)
		a.Error, b.Error = x.L.norm(a.Error), x.R.norm(b.Error)
		if !proto.Equal(a, b) {
			x.violation("supply-operations-mismatch", "Supply", fmt.Sprintf("transmission %d differs (local done=%v err=%q datalen=%d; remote done=%v err=%q datalen=%d)", i,
				a.Done, a.Error, len(a.GetOperation().GetData()), b.Done, b.Error, len(b.GetOperation().GetData())), nil)
			return stepOutcome{kind: "supply", fatal: true}
		}
		if a.Error != "" {
			errors++
		}
		if o := a.Operation; o != nil {
			if len(o.Data) > 0 {
				data++
			} else {
				blocks++
			}
		}
	}
	x.r.Count("supply_transmissions_compared", int64(len(recs[0].list)))
	x.r.Count("supply_block_operations", int64(blocks))
	x.r.Count("supply_error_transmissions", int64(errors))
	if serrs[0] != nil {
		x.log("supply error on both: %v", serrs[0])
		return stepOutcome{kind: "supply", class: "error", fatal: true}
	}
	return stepOutcome{kind: "supply", class: fmt.Sprintf("d%d,b%d,e%d", bucket(data), bucket(blocks), bucket(errors))}
}

// syntheticAncestor is a populated directory entry unrelated to the disk.
func syntheticAncestor(r *rand.Rand, n int) *core.Entry {
	e := &core.Entry{Kind: core.EntryKind_Directory, Contents: map[string]*core.Entry{}}
	for i := 0; i < n; i++ {
		e.Contents[fmt.Sprintf("ancestor-file-%03d", i)] = &core.Entry{Kind: core.EntryKind_File, Digest: contentFor(r.Int63(), 20)}
	}
	return e
}

// rootKindHistory drives one endpoint through a history of root states with
// SEVERAL CONSECUTIVE scans in each state: missing (never populated, scanned
// with a populated ancestor), populated, removed (x3), repopulated, a file, an
// empty directory, a dangling link, removed again, a directory again. While
// the root is missing the remote client keeps an older baseline (it does not
// store content-less snapshots), so every one of those scans must still
// reconstruct the empty snapshot.
func (x *c21Run) rootKindHistory(record func(stepOutcome)) {
	which := x.kindRoot
	type phase struct {
		ops   []diskOp
		scans int
		anc   string // "", "synthetic", "nil", "mixed"
	}
	tick := func() int64 { x.clock++; return x.clock }
	populate := func() []diskOp {
		return []diskOp{{Kind: "root-dir"},
			{Kind: "write", Path: "populated-1", Size: 100 + x.rng.Intn(3000), Seed: x.rng.Int63(), Mode: 0o644, Mtime: tick()},
			{Kind: "mkdir", Path: "populated-dir"},
			{Kind: "write", Path: "populated-dir/inner", Size: x.rng.Intn(500), Seed: x.rng.Int63(), Mode: 0o755, Mtime: tick()}}
	}
	var phases []phase
	if x.neverPopulated {
		phases = append(phases, phase{nil, 3, "synthetic"})
	}
	phases = append(phases,
		phase{populate(), 1 + x.rng.Intn(2), ""},
		phase{[]diskOp{{Kind: "root-remove"}}, 3, "mixed"},
		phase{populate(), 1, ""},
		phase{[]diskOp{{Kind: "root-file", Size: c21Size(x.rng), Seed: x.rng.Int63(), Mode: 0o755, Mtime: tick()}}, 2, ""},
		phase{[]diskOp{{Kind: "root-dir"}}, 2, ""},
		phase{[]diskOp{{Kind: "root-link", Target: "nowhere"}}, 2, ""},
		phase{[]diskOp{{Kind: "root-remove"}}, 2 + x.rng.Intn(2), "synthetic"},
		phase{populate(), 1, ""},
	)
	synthetic := syntheticAncestor(x.rng, 5+x.rng.Intn(60))
	for _, ph := range phases {
		for _, op := range ph.ops {
			if x.dead {
				return
			}
			x.log("edit %s: %s", which, op)
			el, er := applyOp(x.L.root(which), op), applyOp(x.R.root(which), op)
			if (el == nil) != (er == nil) {
				x.r.Inconclusive("edit-not-mirrored")
				x.dead = true
				return
			}
			x.dirty[which] = true
			x.r.Count("edits", 1)
			if strings.HasPrefix(op.Kind, "root-") {
				x.r.Count("edits_root_kind", 1)
			}
		}
		absentBefore := x.snap[which] != nil && x.snap[which].Content == nil
		for i := 0; i < ph.scans && !x.dead; i++ {
			switch ph.anc {
			case "synthetic":
				x.forceAncestor, x.forcedAncestor = true, synthetic
			case "nil":
				x.forceAncestor, x.forcedAncestor = true, nil
			case "mixed":
				x.forceAncestor, x.forcedAncestor = true, nil
				if x.rng.Intn(2) == 0 {
					x.forcedAncestor = synthetic
				}
			}
			o := x.scan(which, x.rng.Intn(2) == 0)
			x.forceAncestor, x.forcedAncestor = false, nil
			record(o)
			if !x.dead && x.snap[which] != nil && x.snap[which].Content == nil {
				if absentBefore {
					x.r.Count("consecutive_scans_of_a_missing_root", 1)
				}
				absentBefore = true
			} else {
				absentBefore = false
			}
		}
	}
	x.clock += 5
}

// lateNonUTF8 makes a transition meet a name that is not valid UTF-8 and that
// the scan has not seen: a directory existing only on dst is scanned, then
// gains such an entry, then the replica plan (which removes the directory) is
// applied. The resulting problem must come back identically on both sides.
func (x *c21Run) lateNonUTF8(src, dst string) stepOutcome {
	if listRoot(x.L.root(dst)).rootKind != "dir" {
		return stepOutcome{kind: "transition", class: "skipped"}
	}
	dir := fmt.Sprintf("nd%d", x.rng.Intn(1000))
	x.clock += 3
	ops := []diskOp{{Kind: "mkdir", Path: dir}, {Kind: "write", Path: dir + "/inner", Size: 30, Seed: x.rng.Int63(), Mode: 0o644, Mtime: x.clock}}
	late := diskOp{Kind: "write", Path: dir + "/late\xff\xfename", Size: 5, Seed: x.rng.Int63(), Mode: 0o644, Mtime: x.clock + 1}
	if x.rng.Intn(2) == 0 {
		late = diskOp{Kind: "mkdir", Path: dir + "/late\xffdir"}
	}
	apply := func(op diskOp) bool {
		x.log("edit %s: %s", dst, op)
		el, er := applyOp(x.L.root(dst), op), applyOp(x.R.root(dst), op)
		x.dirty[dst] = true
		if el != nil || er != nil {
			x.r.Inconclusive("edit-not-mirrored")
			x.dead = true
			return false
		}
		return true
	}
	for _, op := range ops {
		if !apply(op) {
			return stepOutcome{kind: "transition", fatal: true}
		}
	}
	if o := x.scan(src, false); o.fatal || x.dead {
		return stepOutcome{kind: "transition", fatal: true}
	}
	if o := x.scan(dst, true); o.fatal || x.dead {
		return stepOutcome{kind: "transition", fatal: true}
	}
	if !apply(late) {
		return stepOutcome{kind: "transition", fatal: true}
	}
	x.r.Count("transitions_after_late_non_utf8_entry", 1)
	o := x.transition(src, dst)
	if o.class != "" && o.class != "skipped" {
		o.class = "late-non-utf8," + o.class
	}
	return o
}

// supplyProbe asks an endpoint to supply files against signatures of other
// content (and an empty signature, and a missing path).
func (x *c21Run) supplyProbe(which string) stepOutcome {
	sn := x.snap[which]
	if sn == nil {
		return stepOutcome{kind: "supply", class: "skipped"}
	}
	var files []fileRef
	collectFiles("", sn.Content, &files)
	if len(files) == 0 {
		return stepOutcome{kind: "supply", class: "skipped"}
	}
	engine := rsync.NewEngine()
	n := 1 + x.rng.Intn(4)
	var paths []string
	var sigs []*rsync.Signature
	for i := 0; i < n; i++ {
		f := files[x.rng.Intn(len(files))]
		p := f.path
		if x.rng.Intn(6) == 0 {
			p = "missing/" + p
		}
		var sig *rsync.Signature
		switch x.rng.Intn(3) {
		case 0:
			sig = &rsync.Signature{}
		case 1: // the file's own content: pure block references
			data, _ := os.ReadFile(filepath.Join(x.L.root(which), filepath.FromSlash(f.path)))
			sig = engine.BytesSignature(data, 0)
		default: // another file's content
			g := files[x.rng.Intn(len(files))]
			data, _ := os.ReadFile(filepath.Join(x.L.root(which), filepath.FromSlash(g.path)))
			sig = engine.BytesSignature(data, 0)
		}
		paths = append(paths, p)
		sigs = append(sigs, sig)
	}
	op := fmt.Sprintf("Supply(%s,%q)", which, paths)
	x.log("%s", op)
	var recs [2]*recorder
	var serrs [2]error
	for i, s := range x.sides() {
		recs[i] = &recorder{}
		cl := make([]*rsync.Signature, len(sigs))
		for j := range sigs {
			cl[j] = proto.Clone(sigs[j]).(*rsync.Signature)
		}
		serrs[i] = s.ep[which].Supply(append([]string(nil), paths...), cl, rsync.NewEncodingReceiver(recs[i]))
	}
	x.r.Count("supplies", 1)
	return x.compareSupply(op, recs, serrs)
}

// transition applies to dst the changes that make it a replica of src's last
// snapshot (computed by the real core.Reconcile), possibly only some of them,
// possibly stale.
func (x *c21Run) transition(src, dst string) stepOutcome {
	ss, ds := x.snap[src], x.snap[dst]
	if ss == nil || ds == nil {
		return stepOutcome{kind: "transition", class: "skipped"}
	}
	_, _, changes, _ := core.Reconcile(nil, ss.Content, ds.Content, core.SynchronizationMode_SynchronizationModeOneWayReplica)
	var valid []*core.Change
	for _, c := range changes {
		if c.EnsureValid(true) == nil {
			valid = append(valid, c)
		}
	}
	if len(valid) > 1 && x.rng.Intn(3) == 0 {
		x.rng.Shuffle(len(valid), func(i, j int) { valid[i], valid[j] = valid[j], valid[i] })
		valid = valid[:1+x.rng.Intn(len(valid))]
	}
	// Optionally make the plan stale: edit dst between its scan and the transition.
	if x.rng.Intn(5) == 0 {
		x.edit(dst, 1+x.rng.Intn(2), false, false)
		if x.dead {
			return stepOutcome{kind: "transition", fatal: true}
		}
	}
	op := fmt.Sprintf("Transition(%s<-%s,%d changes)", dst, src, len(valid))
	x.log("%s", op)
	var results [2][]*core.Entry
	var problems [2][]string
	var rawProblems [2][]*core.Problem
	var missing [2]bool
	var errs [2]error
	for i, s := range x.sides() {
		cl := make([]*core.Change, len(valid))
		for j, c := range valid {
			cl[j] = proto.Clone(c).(*core.Change)
		}
		res, probs, miss, err := s.ep[dst].Transition(context.Background(), cl)
		results[i], rawProblems[i], missing[i], errs[i] = res, probs, miss, err
		problems[i] = normProblems(probs, s)
	}
	x.dirty[dst] = true
	x.r.Count("transitions", 1)
	x.r.Count("transition_changes", int64(len(valid)))
	if (errs[0] == nil) != (errs[1] == nil) {
		sig := map[string]string{"rule": "error-mismatch", "operation": "Transition"}
		var lp []string
		for _, p := range rawProblems[0] {
			lp = append(lp, fmt.Sprintf("%q: %q", p.Path, p.Error))
			if !utf8.ValidString(p.Path) || !utf8.ValidString(p.Error) {
				sig["case"] = "non-utf8-name-in-transition-problem"
			}
		}
		x.violationSig(sig, fmt.Sprintf("local error %s, remote error %s", errText(errs[0]), errText(errs[1])), map[string]any{"local_problems": lp, "transitions": describeChanges(valid)})
		return stepOutcome{kind: "transition", fatal: true}
	}
	if errs[0] != nil {
		x.r.Count("transitions_with_error_on_both", 1)
		x.log("transition error on both: %v", errs[0])
		return stepOutcome{kind: "transition", class: "error"}
	}
	if len(results[0]) != len(results[1]) {
		x.violation("results-mismatch", "Transition", fmt.Sprintf("result count local %d remote %d", len(results[0]), len(results[1])), nil)
		return stepOutcome{kind: "transition", fatal: true}
	}
	changed := 0
	for i := range results[0] {
		if !entriesEqual(results[0][i], results[1][i]) {
			x.violation("results-mismatch", "Transition", fmt.Sprintf("result %d (path %q) differs at %s", i, valid[i].Path, firstEntryDifference(valid[i].Path, results[0][i], results[1][i])), nil)
			return stepOutcome{kind: "transition", fatal: true}
		}
		if !entriesEqual(results[0][i], valid[i].Old) {
			changed++
		}
	}
	if strings.Join(problems[0], "\x01") != strings.Join(problems[1], "\x01") {
		x.violation("problems-mismatch", "Transition", fmt.Sprintf("problems differ: local %q remote %q", trimList(problems[0]), trimList(problems[1])), nil)
		return stepOutcome{kind: "transition", fatal: true}
	}
	if missing[0] != missing[1] {
		x.violation("missing-files-flag-mismatch", "Transition", fmt.Sprintf("stagerMissingFiles local=%v remote=%v", missing[0], missing[1]), nil)
		return stepOutcome{kind: "transition", fatal: true}
	}
	x.r.Count("transition_results_compared", int64(len(results[0])))
	x.r.Count("transition_results_applied", int64(changed))
	x.r.Count("transition_problems_compared", int64(len(problems[0])))
	if missing[0] {
		x.r.Count("transitions_with_missing_files", 1)
	}
	for _, p := range rawProblems[0] {
		if strings.ContainsRune(p.Path, '\ufffd') || !utf8.ValidString(p.Path) {
			x.r.Count("transition_problems_naming_non_utf8_entries", 1)
		}
	}
	return stepOutcome{kind: "transition", class: fmt.Sprintf("n%d,applied%d,p%d,m%v", bucket(len(valid)), bucket(changed), bucket(len(problems[0])), missing[0])}
}

// ---------------------------------------------------------------- running a program

func (x *c21Run) setup() error {
	p := x.p
	scratch := x.r.Scratch()
	progDir := filepath.Join(scratch, fmt.Sprintf("p%05d", p.Index))
	x.L = &c21Side{name: "L", base: filepath.Join(progDir, "L"), session: fmt.Sprintf("sync_c21p%05dL", p.Index), ep: map[string]synchronization.Endpoint{}}
	x.R = &c21Side{name: "R", base: filepath.Join(progDir, "R"), session: fmt.Sprintf("sync_c21p%05dR", p.Index), ep: map[string]synchronization.Endpoint{}}
	var level logging.Level = logging.LevelDisabled
	if p.Index%2 == 0 {
		level = logging.LevelDebug // makes the client compute its delta statistics
	}
	logger := logging.NewLogger(level, io.Discard)
	for _, s := range x.sides() {
		for _, which := range []string{"a", "b"} {
			if err := os.MkdirAll(s.root(which), 0o755); err != nil {
				return err
			}
		}
	}
	// initial content: some programs start from empty roots
	if x.rng.Intn(4) != 0 {
		for _, which := range []string{"a", "b"} {
			n := x.rng.Intn(12)
			if which == "b" && x.rng.Intn(2) == 0 {
				n = 0
			}
			x.edit(which, n, false, false)
			if x.dead {
				return fmt.Errorf("initial edits could not be mirrored")
			}
		}
	}
	if p.Index%4 == 0 {
		// large-snapshot program: one root is already large at the first scan,
		// so the remote client's first delta is taken against the (walked)
		// ancestor and contains block references into it
		x.bulkRoot = []string{"a", "b"}[x.rng.Intn(2)]
		if listRoot(x.L.root(x.bulkRoot)).rootKind == "dir" {
			op := diskOp{Kind: "bulk", Path: "big0", Count: 300 + x.rng.Intn(1500), Seed: x.rng.Int63(), Mtime: x.clock + 1}
			x.log("edit %s: %s", x.bulkRoot, op)
			for _, s := range x.sides() {
				if err := applyOp(s.root(x.bulkRoot), op); err != nil {
					return err
				}
			}
			x.clock += 2
		}
	}
	if p.Index%4 == 1 {
		x.kindRoot = []string{"a", "b"}[x.rng.Intn(2)]
		if x.rng.Intn(2) == 0 {
			// the root does not exist when the endpoints come up and is first
			// scanned (repeatedly) as missing
			x.neverPopulated = true
			x.log("edit %s: root-remove before the endpoints exist", x.kindRoot)
			for _, s := range x.sides() {
				if err := os.RemoveAll(s.root(x.kindRoot)); err != nil {
					return err
				}
			}
		}
	}
	for _, which := range []string{"a", "b"} {
		alpha := which == "a"
		ep, err := local.NewEndpoint(logger, x.L.root(which), x.L.session, synchronization.DefaultVersion, proto.Clone(p.cfg).(*synchronization.Configuration), alpha)
		if err != nil {
			return fmt.Errorf("local endpoint: %w", err)
		}
		x.L.ep[which] = ep
		clientEnd, serverEnd := newDuplex(x.rng)
		served := make(chan error, 1)
		go func() { served <- remote.ServeEndpoint(logger, serverEnd) }()
		x.R.served = append(x.R.served, served)
		x.R.streams = append(x.R.streams, clientEnd)
		rep, err := remote.NewEndpoint(logger, clientEnd, x.R.root(which), x.R.session, synchronization.DefaultVersion, proto.Clone(p.cfg).(*synchronization.Configuration), alpha)
		if err != nil {
			return fmt.Errorf("remote endpoint: %w", err)
		}
		x.R.ep[which] = rep
	}
	x.ready = true
	return nil
}

func (x *c21Run) cleanup() {
	x.L.shutdown()
	x.R.shutdown()
	os.RemoveAll(filepath.Dir(x.L.base))
	if dd := os.Getenv("MUTAGEN_DATA_DIRECTORY"); dd != "" {
		for _, s := range x.sides() {
			for _, n := range []string{"alpha", "beta"} {
				os.Remove(filepath.Join(dd, "caches", s.session+"_"+n))
				os.RemoveAll(filepath.Join(dd, "staging", s.session+"-"+n))
			}
		}
	}
}

func (x *c21Run) run() {
	r := x.r
	oneWay := x.p.cfg.SynchronizationMode == core.SynchronizationMode_SynchronizationModeOneWayReplica
	record := func(o stepOutcome) {
		if o.class != "" && o.class != "skipped" && !x.dead {
			r.Distinct(fmt.Sprintf("%s|%s|%s", o.kind, o.class, x.p.Alg))
		}
		if o.fatal {
			x.dead = true
		}
	}
	// Every program begins with a scan of both roots.
	for _, which := range []string{"a", "b"} {
		if x.neverPopulated && which == x.kindRoot {
			continue // first scanned, as missing, by rootKindHistory
		}
		if !x.dead {
			record(x.scan(which, x.rng.Intn(2) == 0))
		}
	}
	bulkBudget := 0
	if x.p.Index%4 == 0 {
		// large-snapshot program: a bulk directory first, then many consecutive
		// scans of the same endpoint with small and large changes in between
		bulkBudget = 4
		which := x.bulkRoot
		for _, op := range []diskOp{
			{Kind: "bulk-touch", Path: "big0", Count: 97, Seed: x.rng.Int63(), Mtime: x.clock + 2},
			{Kind: "write", Path: "big0/one-more", Size: 10, Seed: x.rng.Int63(), Mode: 0o644, Mtime: x.clock + 3},
			{Kind: "bulk-touch", Path: "big0", Count: 2, Seed: x.rng.Int63(), Mtime: x.clock + 4},
			{Kind: "bulk", Path: "big1", Count: 200 + x.rng.Intn(300), Seed: x.rng.Int63(), Mtime: x.clock + 5},
			{Kind: "remove", Path: "big0"},
		} {
			if x.dead {
				break
			}
			if listRoot(x.L.root(which)).rootKind != "dir" {
				break
			}
			x.log("edit %s: %s", which, op)
			el, er := applyOp(x.L.root(which), op), applyOp(x.R.root(which), op)
			if (el == nil) != (er == nil) {
				x.r.Inconclusive("edit-not-mirrored")
				x.dead = true
				break
			}
			x.dirty[which] = true
			x.r.Count("edits", 1)
			x.r.Count("edits_bulk", 1)
			record(x.scan(which, x.rng.Intn(2) == 0))
		}
		x.clock += 10
	}
	if x.p.Index%4 == 1 {
		x.rootKindHistory(record)
	}
	for x.step = 1; x.step <= x.p.Steps && !x.dead; x.step++ {
		which := []string{"a", "b"}[x.rng.Intn(2)]
		other := map[string]string{"a": "b", "b": "a"}[which]
		switch k := x.rng.Intn(22); {
		case k < 4:
			allowBulk := bulkBudget > 0 && x.rng.Intn(3) == 0
			if allowBulk {
				bulkBudget--
			}
			record(x.edit(which, 1+x.rng.Intn(4), x.rng.Intn(6) == 0, allowBulk))
		case k < 9:
			record(x.scan(which, x.rng.Intn(2) == 0))
		case k < 13:
			// a synchronization cycle towards dst: scan both, stage+supply, transition
			dst, src := which, other
			if oneWay {
				dst, src = "b", "a" // alpha is read-only in one-way modes
			}
			record(x.scan(src, false))
			if x.dead {
				break
			}
			record(x.scan(dst, true))
			if x.dead {
				break
			}
			record(x.stageAndSupply(src, dst))
			if x.dead {
				break
			}
			record(x.transition(src, dst))
		case k < 15:
			dst, src := which, other
			if oneWay {
				dst, src = "b", "a"
			}
			if x.stagedSinceScan[dst] {
				// a second Stage without a scan is an error that ends the remote
				// server; it is exercised once, at the end of the program
				record(x.scan(dst, false))
				if x.dead {
					break
				}
			}
			record(x.stageAndSupply(src, dst))
		case k < 17:
			dst, src := which, other
			if oneWay {
				dst, src = "b", "a"
			}
			if x.rng.Intn(3) != 0 {
				record(x.scan(dst, false))
				if x.dead {
					break
				}
			}
			record(x.transition(src, dst))
		case k < 19:
			record(x.supplyProbe(which))
		case k >= 20:
			dst, src := which, other
			if oneWay {
				dst, src = "b", "a"
			}
			record(x.lateNonUTF8(src, dst))
		default:
			// protocol misuse the endpoints must answer identically: a second
			// transition without a scan in between
			dst, src := which, other
			if oneWay {
				dst, src = "b", "a"
			}
			record(x.transition(src, dst))
			if !x.dead {
				record(x.transition(src, dst))
			}
		}
	}
	// Final full scans: whatever the transitions left on disk must be reported identically.
	x.step = x.p.Steps + 1
	if !x.dead {
		record(x.scan("a", true))
	}
	if !x.dead {
		record(x.scan("b", true))
	}
	// Last: staging twice without a scan (ends the remote server, so it comes last).
	if !x.dead && !oneWay && x.rng.Intn(3) == 0 && x.snap["a"] != nil && x.snap["b"] != nil {
		x.step++
		x.log("double Stage without scan")
		record(x.stageAndSupply("a", "b"))
		if !x.dead {
			record(x.stageAndSupply("a", "b"))
		}
	}
	if !x.dead && oneWay {
		// staging on the read-only alpha of a one-way session: first a real
		// request (the error ends the remote server, so nothing that needs the
		// server may follow), then an empty one (answered by the client alone)
		x.step++
		x.log("Stage on read-only alpha")
		record(x.stageRaw("a", []fileRef{{"some/file", contentFor(1, 20)}}))
		if !x.dead {
			record(x.stageRaw("a", nil))
		}
	}
}

// stageRaw calls Stage with a literal request and compares only error/no
// error and the nil-ness of everything else (used for read-only endpoints).
func (x *c21Run) stageRaw(dst string, req []fileRef) stepOutcome {
	x.log("Stage(%s, literal request of %d paths)", dst, len(req))
	var errs [2]error
	var got [2]bool
	for i, s := range x.sides() {
		paths := make([]string, len(req))
		digests := make([][]byte, len(req))
		for j, f := range req {
			paths[j], digests[j] = f.path, f.digest
		}
		p, sg, rc, err := s.ep[dst].Stage(paths, digests)
		errs[i] = err
		got[i] = len(p) > 0 || len(sg) > 0 || rc != nil
	}
	x.r.Count("stages", 1)
	if (errs[0] == nil) != (errs[1] == nil) || got[0] != got[1] {
		sig := map[string]string{"rule": "error-mismatch", "operation": "Stage"}
		if len(req) == 0 {
			sig["case"] = "empty-request-on-read-only-endpoint"
		}
		x.violationSig(sig, fmt.Sprintf("Stage of %d paths on the read-only alpha endpoint: local error %s, remote error %s", len(req), errText(errs[0]), errText(errs[1])), nil)
		return stepOutcome{kind: "stage", fatal: true}
	}
	if errs[0] != nil {
		x.r.Count("stages_with_error_on_both", 1)
	}
	return stepOutcome{kind: "stage", class: fmt.Sprintf("read-only,%d,err=%v", len(req), errs[0] != nil)}
}

// heartbeat is the control of the hang watchdog: a goroutine that should tick
// every 50 ms; it remembers when it last saw a gap of a second or more, i.e.
// when the scheduler (or the machine) was last unhealthy.
type heartbeat struct {
	lastBadNs atomic.Int64 // unix nanoseconds of the last gap >= 1 s, 0 if none
	maxGapNs  atomic.Int64
	// windowMaxNs is the largest gap since it was last reset (used by the
	// cancellation probe, which runs alone)
	windowMaxNs atomic.Int64
	stop        chan struct{}
}

func startHeartbeat() *heartbeat {
	h := &heartbeat{stop: make(chan struct{})}
	go func() {
		last := time.Now()
		t := time.NewTicker(50 * time.Millisecond)
		defer t.Stop()
		for {
			select {
			case <-h.stop:
				return
			case <-t.C:
				now := time.Now()
				g := now.Sub(last)
				if g.Nanoseconds() > h.maxGapNs.Load() {
					h.maxGapNs.Store(g.Nanoseconds())
				}
				if g.Nanoseconds() > h.windowMaxNs.Load() {
					h.windowMaxNs.Store(g.Nanoseconds())
				}
				if g >= time.Second {
					h.lastBadNs.Store(now.UnixNano())
				}
				last = now
			}
		}
	}()
	return h
}

// Watchdog bounds. A step (one endpoint call on each side, or an edit) takes
// 1 ms .. 1 s nominally; the bound is >= 100x that and >= 10 s. A step counts
// as hung only if a full window of that length passed without progress AND
// without any heartbeat gap; with gaps the watchdog keeps waiting and finally
// gives the case up as inconclusive.
const (
	c21StepWindow               = 300 * time.Second
	c21StepWindowAfterFirstHang = 30 * time.Second
	c21GiveUp                   = 30 * time.Minute
)

var c21HangsSeen atomic.Int64

func runC21Program(r *vk.Run, p *c21Program, hb *heartbeat) {
	x := &c21Run{r: r, p: p, rng: rand.New(rand.NewSource(p.Seed)), snap: map[string]*core.Snapshot{}, dirty: map[string]bool{}, stagedSinceScan: map[string]bool{}, clock: 1_600_000_000 + int64(p.Index)*100_000}
	fmt.Printf("C21 program %d seed=%d steps=%d alg=%s cfg=%s\n", p.Index, p.Seed, p.Steps, p.Alg, cfgJSON(p.cfg))
	done := make(chan struct{})
	go func() {
		defer close(done)
		r.Guard(map[string]any{"program": p.Index, "seed": p.Seed}, func() {
			if err := x.setup(); err != nil {
				// With a valid configuration both endpoints must come up.
				if !x.dead {
					x.violation("endpoint-setup", "NewEndpoint", err.Error(), nil)
				}
				return
			}
			x.run()
		})
	}()
	// Control-relative watchdog (no verdict from wall-clock alone, see the constants above).
	x.progressNs.Store(time.Now().UnixNano())
	tick := time.NewTicker(2 * time.Second)
	defer tick.Stop()
watch:
	for {
		select {
		case <-done:
			break watch
		case <-tick.C:
		}
		now := time.Now().UnixNano()
		progress := x.progressNs.Load()
		ref := progress
		if bad := hb.lastBadNs.Load(); bad > ref {
			ref = bad
		}
		window := c21StepWindow
		if c21HangsSeen.Load() > 0 {
			// a hang has already been established in this run: later stuck
			// steps only add to the count, so they get the short window
			window = c21StepWindowAfterFirstHang
		}
		hung := time.Duration(now-ref) > window
		gaveUp := time.Duration(now-progress) > c21GiveUp
		if !hung && !gaveUp {
			continue
		}
		buf := make([]byte, 4<<20)
		dump := buf[:runtime.Stack(buf, true)]
		x.jmu.Lock()
		op := x.curOp
		x.jmu.Unlock()
		if hung {
			c21HangsSeen.Add(1)
			x.violationSig(map[string]string{"rule": "hang", "operation": op},
				fmt.Sprintf("%s made no progress for %v although the heartbeat control showed no scheduling gap >= 1 s in that window; goroutine dump in the log", op, window), map[string]any{"window_s": window.Seconds()})
		} else {
			r.Inconclusive("step-timeout-on-unhealthy-scheduler")
		}
		fmt.Printf("C21 program %d: no progress in step %d (%s); hung=%v; max heartbeat gap so far %v; goroutines:\n%s\n", p.Index, x.step, op, hung, time.Duration(hb.maxGapNs.Load()), dump)
		// unblock whatever is stuck
		if x.R != nil {
			for _, c := range x.R.streams {
				c.Close()
			}
		}
		select {
		case <-done:
		case <-time.After(60 * time.Second):
			return
		}
		break watch
	}
	if x.L != nil && x.R != nil {
		x.cleanup()
	}
	r.Eval(1)
	r.Count("steps_executed", int64(x.step))
	if p.Index < 3 {
		j := p.Journal
		if len(j) > 25 {
			j = j[:25]
		}
		r.Sample(map[string]any{"program": p.Index, "seed": p.Seed, "compression": p.Alg, "configuration": cfgJSON(p.cfg), "journal_head": j})
	}
}

func c21() {
	r := vk.Start("C21", "exploration")
	debug.SetGCPercent(400)
	n := r.Pick(40, 300)
	steps := 15
	seeds := make([]int64, n)
	rng := r.Rand("programs")
	for i := range seeds {
		seeds[i] = rng.Int63()
	}
	hb := startHeartbeat()
	if v := os.Getenv("VERIF_CASE"); v == "" || v == "probes" {
		c21CancelProbes(r, hb)
		c21AccelerationProbes(r)
	}
	workers := runtime.NumCPU()
	if workers > 16 {
		workers = 16
	}
	if workers > n {
		workers = n
	}
	only := os.Getenv("VERIF_CASE")
	ch := make(chan int)
	var wg sync.WaitGroup
	for w := 0; w < workers; w++ {
		wg.Add(1)
		go func() {
			defer wg.Done()
			for i := range ch {
				pr := rand.New(rand.NewSource(seeds[i]))
				cfg, alg := randomC21Config(pr)
				p := &c21Program{Index: i, Seed: pr.Int63(), Steps: steps + pr.Intn(steps), cfg: cfg, Alg: alg, Debug: os.Getenv("VERIF_DEBUG") != ""}
				runC21Program(r, p, hb)
			}
		}()
	}
	for i := 0; i < n; i++ {
		if only != "" && only != fmt.Sprint(i) {
			continue
		}
		ch <- i
	}
	close(ch)
	wg.Wait()
	close(hb.stop)
	stopProfile()
	r.Note("max_snapshot_entries", c21MaxEntries.Load())

	r.Assume("watch mode no-watch on both sides, so scans are full scans of the disk and deterministic; every file written by the harness gets an explicit program-unique mtime, identical on both mirrored roots")
	r.Assume("the order of transition problems is compared as a multiset (core.Transition walks Go maps; the order is unspecified); error texts are compared for presence only, problem/transmission/entry error texts after replacing the per-side root directory and session identifier")
	r.Assume("Stage is not issued while the destination changed since its last scan and a requested digest has two or more holders in the destination's cache: local.Stage picks its in-root source through a digest->path map built in Go map order, so the required subset is not a function of the inputs there (the monitor rescans first)")
	r.Assume("FIFOs are created only under names that never carry a file on the other root: local.Stage and rsync.Transmit open files without O_NONBLOCK and block forever on a FIFO (observed; not a local/remote difference)")
	r.Assume("the remote staging receiver is asynchronous (the server stores files while draining the stream); the monitor waits for it with a Poll round trip before editing the disk again, as the next controller call would")
	r.Assume("the full flag is checked in dedicated probes with watch mode force-poll and a 24 h polling interval; acceleration is observed (a regular scan after an edit returns the old snapshot on both sides) before regular and full scans are compared; a probe in which it is not observed is inconclusive")
	r.Assume("cancellation of a long Transition is judged one-sidedly and control-relatively (event-triggered cancel, local control must stop early, the completion request must have been in the server's stream with >= 3/4 of the work left and >= 500 ms and >= 20 heartbeat gaps before the return); anything else is held or inconclusive")
	r.Assume("a Stage or Supply error ends the remote server by design, so a program stops at the first such (equal on both sides) error")
	r.Finish("random programs of Scan(full?)/Stage+Supply/Supply probes/Transition/disk edits (incl. empty roots, root kind changes, bulk directories of 300-1800 files, stale plans, wrong digests, missing sources, entry-count and staging-size limits) run identically against a local endpoint and a remote endpoint (client<->server over a randomly fragmenting in-memory pipe, compression none/deflate/default); distinct = (operation, outcome class, compression) of steps whose returned values were compared equal", 25)
}
