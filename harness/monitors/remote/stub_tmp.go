package main

func c21() {}
