package main

func c21() {}
func c37() {}
