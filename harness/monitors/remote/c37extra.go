package main

import (
	"context"
	"fmt"
	"io"
	"math/rand"
	"os"
	"path/filepath"
	"strings"

	"google.golang.org/protobuf/proto"

	"github.com/mutagen-io/mutagen/pkg/logging"
	synchronizationsvc "github.com/mutagen-io/mutagen/pkg/service/synchronization"
	"github.com/mutagen-io/mutagen/pkg/synchronization"
	"github.com/mutagen-io/mutagen/pkg/synchronization/core"
	"github.com/mutagen-io/mutagen/pkg/synchronization/core/ignore"
	"github.com/mutagen-io/mutagen/pkg/synchronization/endpoint/local"
	"github.com/mutagen-io/mutagen/pkg/synchronization/endpoint/remote"

	"verif/internal/vk"
)

// ---------------------------------------------------------------- merge must not alias the lower lists

// spare returns a slice with the given elements whose capacity exceeds its
// length, as a list built by repeated append has.
func spare(extra int, elems ...string) []string {
	s := make([]string, 0, len(elems)+extra)
	return append(s, elems...)
}

// c37MergeAliasing merges ONE lower configuration (whose list fields have
// spare capacity) into TWO different higher configurations — the way one
// project default is merged into several sessions — and then re-checks the
// FIRST result and the lower configuration: a merge that appends to the lower
// slice in place makes the second merge overwrite the first result.
func c37MergeAliasing(r *vk.Run) {
	lowers := [][]string{{"a"}, {"a", "b"}, {"a", "b", "c"}}
	highers := [][]string{{}, {"x1"}, {"x1", "x2"}, {"y1"}, {"y1", "y2", "y3"}}
	for _, field := range []string{"ignores", "defaultIgnores", "both"} {
		for _, extra := range []int{0, 1, 2, 3, 8} {
			for _, lo := range lowers {
				for i, h1 := range highers {
					for j, h2 := range highers {
						if i == j {
							continue
						}
						mk := func(l []string, withSpare bool) *synchronization.Configuration {
							c := &synchronization.Configuration{}
							build := func(l []string) []string {
								if len(l) == 0 {
									return nil
								}
								if withSpare {
									return spare(extra, l...)
								}
								return append([]string(nil), l...)
							}
							if field == "ignores" || field == "both" {
								c.Ignores = build(l)
							}
							if field == "defaultIgnores" || field == "both" {
								c.DefaultIgnores = build(l)
							}
							return c
						}
						lower := mk(lo, true)
						lowerBefore := proto.Clone(lower).(*synchronization.Configuration)
						high1, high2 := mk(h1, false), mk(h2, false)
						want1, want2 := refMerge(lowerBefore, high1), refMerge(lowerBefore, high2)
						var got1, got2 *synchronization.Configuration
						desc := map[string]any{"field": field, "lower": lo, "spare_capacity": extra, "higher1": h1, "higher2": h2}
						r.Guard(desc, func() {
							got1 = synchronization.MergeConfigurations(lower, high1)
							got2 = synchronization.MergeConfigurations(lower, high2)
						})
						r.Eval(1)
						r.Count("merge_fork_checks", 1)
						if got1 == nil || got2 == nil {
							continue
						}
						bad := ""
						switch {
						case firstDifferingField(got2, want2) != "":
							bad = "second result differs from the reference in " + firstDifferingField(got2, want2)
						case firstDifferingField(got1, want1) != "":
							bad = "first result no longer equals the reference after the second merge, field " + firstDifferingField(got1, want1)
						case firstDifferingField(lower, lowerBefore) != "":
							bad = "the lower configuration was modified, field " + firstDifferingField(lower, lowerBefore)
						}
						if bad != "" {
							f := firstDifferingField(got1, want1)
							if f == "" {
								f = firstDifferingField(got2, want2)
							}
							if f == "" {
								f = firstDifferingField(lower, lowerBefore)
							}
							desc["first_result"], desc["first_expected"] = cfgJSON(got1), cfgJSON(want1)
							desc["second_result"], desc["second_expected"] = cfgJSON(got2), cfgJSON(want2)
							r.Violation(map[string]string{"rule": "merge-results-share-storage", "field": f},
								"merging one lower configuration (lists with spare capacity) into two higher configurations: "+bad, desc)
						} else if extra > 0 && len(h1) > 0 && len(h2) > 0 {
							r.Distinct(fmt.Sprintf("fork|%s|%d|%d|%d|%d", field, len(lo), extra, len(h1), len(h2)))
						}
					}
				}
			}
		}
	}
}

// ---------------------------------------------------------------- order of the endpoint's combined ignore list

// handlerAcceptsConfigurations asks the real Server.Create about literal configurations.
func (s *c37State) handlerAcceptsConfigurations(cfgs [3]*synchronization.Configuration) (bool, string) {
	var resp *synchronizationsvc.CreateResponse
	var cerr error
	s.r.Guard(map[string]string{"session": cfgJSON(cfgs[0])}, func() {
		resp, cerr = s.server.Create(context.Background(), &synchronizationsvc.CreateRequest{Prompter: "verif-no-prompter", Specification: s.specification(cfgs)})
	})
	s.r.Count("handler_creations", 1)
	if cerr != nil {
		return false, cerr.Error()
	}
	return resp != nil && resp.Session != "", ""
}

// scanWith initializes a real endpoint (local, or remote over the in-memory
// pipe) with the effective configuration and returns its scan of root.
func scanWith(remoteSide bool, root, session string, cfg *synchronization.Configuration, seed int64) (*core.Snapshot, error) {
	logger := logging.NewLogger(logging.LevelDisabled, io.Discard)
	var ep synchronization.Endpoint
	var err error
	var served chan error
	var closer io.Closer
	if remoteSide {
		clientEnd, serverEnd := newDuplex(rand.New(rand.NewSource(seed)))
		served = make(chan error, 1)
		go func() { served <- remote.ServeEndpoint(logger, serverEnd) }()
		closer = clientEnd
		ep, err = remote.NewEndpoint(logger, clientEnd, root, session, synchronization.DefaultVersion, cfg, true)
	} else {
		ep, err = local.NewEndpoint(logger, root, session, synchronization.DefaultVersion, cfg, true)
	}
	if err != nil {
		if closer != nil {
			closer.Close()
			<-served
		}
		return nil, err
	}
	snap, serr, _ := ep.Scan(context.Background(), nil, true)
	ep.Shutdown()
	if closer != nil {
		closer.Close()
		<-served
	}
	if serr != nil {
		return nil, serr
	}
	return proto.Clone(snap).(*core.Snapshot), nil
}

func classification(e *core.Entry, prefix string, out *[]string) {
	if e == nil {
		return
	}
	names := make([]string, 0, len(e.Contents))
	for n := range e.Contents {
		names = append(names, n)
	}
	sortStrings(names)
	for _, n := range names {
		p := n
		if prefix != "" {
			p = prefix + "/" + n
		}
		*out = append(*out, p+":"+e.Contents[n].Kind.String())
		classification(e.Contents[n], p, out)
	}
}

func sortStrings(s []string) {
	for i := 1; i < len(s); i++ {
		for j := i; j > 0 && s[j] < s[j-1]; j-- {
			s[j], s[j-1] = s[j-1], s[j]
		}
	}
}

// c37IgnoreOrder: for accepted session configurations that carry BOTH the
// deprecated defaultIgnores and ignores, the endpoint must classify a root
// exactly as it does for the single in-order list [defaultIgnores...,
// ignores...] given through ignores alone. Every split of every
// order-dependent pattern list is compared with the unsplit list, on a real
// local endpoint and on a real remote endpoint.
func (s *c37State) c37IgnoreOrder() {
	r := s.r
	root := filepath.Join(r.Scratch(), "ignore-order-root")
	os.MkdirAll(filepath.Join(root, "sub"), 0o755)
	for _, f := range []string{"keep.log", "other.log", "plain.txt", "sub/keep.log", "sub/x.log", "sub/y.txt"} {
		os.WriteFile(filepath.Join(root, filepath.FromSlash(f)), []byte("content of "+f), 0o644)
	}
	lists := [][]string{
		{"*.log", "!keep.log"},
		{"!keep.log", "*.log"},
		{"*.log", "!keep.log", "keep.log"},
		{"*.log", "!*.log", "other.log"},
		{"sub", "!sub", "*.txt"},
		{"*.txt", "*.log", "!keep.log", "!plain.txt"},
	}
	syntaxes := []ignore.Syntax{ignore.Syntax_SyntaxDefault, ignore.Syntax_SyntaxMutagen, ignore.Syntax_SyntaxDocker}
	caseNo := 0
	orderSensitive := 0
	for _, syntax := range syntaxes {
		for _, list := range lists {
			for _, remoteSide := range []bool{false, true} {
				side := map[bool]string{false: "local", true: "remote"}[remoteSide]
				base := func() *synchronization.Configuration {
					return &synchronization.Configuration{IgnoreSyntax: syntax, WatchMode: synchronization.WatchMode_WatchModeNoWatch}
				}
				run := func(def, ign []string) ([]string, bool) {
					caseNo++
					cfg := base()
					cfg.DefaultIgnores, cfg.Ignores = def, ign
					cfgs := [3]*synchronization.Configuration{cfg, {}, {}}
					fmt.Printf("C37 ignore-order case %d %s syntax=%s defaultIgnores=%q ignores=%q\n", caseNo, side, syntax, def, ign)
					if ok, why := s.handlerAcceptsConfigurations(cfgs); !ok {
						r.Count("ignore_order_combinations_rejected_at_creation", 1)
						r.Note("ignore_order_last_rejection", why)
						return nil, false
					}
					merged := synchronization.MergeConfigurations(cfg, cfgs[1])
					var snap *core.Snapshot
					var err error
					r.Guard(map[string]any{"defaultIgnores": def, "ignores": ign, "syntax": syntax.String(), "endpoint": side}, func() {
						snap, err = scanWith(remoteSide, root, fmt.Sprintf("sync_c37ign%05d", caseNo), merged, int64(caseNo))
					})
					r.Eval(1)
					if err != nil || snap == nil {
						// patterns are validated at endpoint initialization; a list one
						// syntax refuses is refused in every split alike
						r.Count("ignore_order_endpoint_refused", 1)
						return nil, false
					}
					var cls []string
					classification(snap.Content, "", &cls)
					return cls, true
				}
				want, ok := run(nil, list)
				if !ok {
					continue
				}
				rev := make([]string, len(list))
				for i := range list {
					rev[len(list)-1-i] = list[i]
				}
				if revCls, ok := run(nil, rev); ok && strings.Join(revCls, ",") != strings.Join(want, ",") {
					orderSensitive++
				}
				for k := 1; k <= len(list); k++ {
					got, ok := run(list[:k:k], list[k:])
					if !ok {
						continue
					}
					r.Count("ignore_order_splits_compared", 1)
					if strings.Join(got, ",") != strings.Join(want, ",") {
						r.Violation(map[string]string{"rule": "ignore-order-differs-from-unsplit-list", "endpoint": side},
							fmt.Sprintf("%s endpoint, syntax %s: defaultIgnores=%q + ignores=%q classifies the root differently from the single list ignores=%q", side, syntax, list[:k], list[k:], list),
							map[string]any{"endpoint": side, "syntax": syntax.String(), "defaultIgnores": list[:k], "ignores": list[k:], "classification": got, "classification_of_unsplit_list": want})
					} else if k < len(list) {
						r.Distinct(fmt.Sprintf("ignore-order|%s|%s|%q|%d", side, syntax, list, k))
					}
				}
			}
		}
	}
	r.Count("ignore_order_lists_whose_reversal_changes_the_scan", int64(orderSensitive))
	if orderSensitive == 0 {
		// the sensor (a root whose classification depends on pattern order) is dead
		r.Inconclusive("ignore-order-sensor-not-alive")
	}
}
