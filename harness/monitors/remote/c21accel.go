package main

import (
	"context"
	"fmt"
	"io"
	"os"
	"path/filepath"
	"time"

	"github.com/mutagen-io/mutagen/pkg/logging"
	"github.com/mutagen-io/mutagen/pkg/synchronization"
	"github.com/mutagen-io/mutagen/pkg/synchronization/compression"
	"github.com/mutagen-io/mutagen/pkg/synchronization/core"
	"github.com/mutagen-io/mutagen/pkg/synchronization/endpoint/local"
	"github.com/mutagen-io/mutagen/pkg/synchronization/endpoint/remote"

	"verif/internal/vk"
)

// The full flag of Scan only matters while scan acceleration is active: with
// poll-based watching and a 24 h polling interval the endpoint's watcher scans
// once and from then on a regular Scan answers from that (stale) snapshot,
// whereas Scan(full=true) must look at the disk. The probe observes (it does
// not sleep blindly) that acceleration is active on BOTH the local endpoint
// and the endpoint served behind the remote client — a regular Scan after a
// disk edit still returns the old snapshot — and then compares regular and
// full scans on both sides as usual.

func hasName(s *core.Snapshot, name string) bool {
	return s != nil && s.Content != nil && s.Content.Contents[name] != nil
}

func c21AccelerationProbes(r *vk.Run) {
	n := r.Pick(4, 16)
	algs := []compression.Algorithm{compression.Algorithm_AlgorithmDeflate, compression.Algorithm_AlgorithmNone, compression.Algorithm_AlgorithmDefault}
	for i := 0; i < n; i++ {
		rng := r.Rand(fmt.Sprintf("accel-%d", i))
		alg := algs[i%len(algs)]
		base := filepath.Join(r.Scratch(), fmt.Sprintf("accel%02d", i))
		L := &c21Side{name: "L", base: filepath.Join(base, "L"), session: fmt.Sprintf("sync_c21accel%03dL", i)}
		R := &c21Side{name: "R", base: filepath.Join(base, "R"), session: fmt.Sprintf("sync_c21accel%03dR", i)}
		sides := [2]*c21Side{L, R}
		clock := int64(1_500_000_000 + i*1000)
		write := func(name string, size int) {
			clock++
			seed := rng.Int63()
			for _, s := range sides {
				writeFileAt(filepath.Join(s.root("a"), name), contentFor(seed, size), 0o644, clock)
			}
		}
		for _, s := range sides {
			os.MkdirAll(filepath.Join(s.root("a"), "dir"), 0o755)
		}
		for k := 0; k < 3+rng.Intn(5); k++ {
			write(fmt.Sprintf("initial-%d", k), rng.Intn(2000))
		}
		write("dir/inner", 10)

		cfg := &synchronization.Configuration{
			WatchMode:            synchronization.WatchMode_WatchModeForcePoll,
			WatchPollingInterval: 24 * 60 * 60,
			ScanMode:             []synchronization.ScanMode{synchronization.ScanMode_ScanModeDefault, synchronization.ScanMode_ScanModeAccelerated}[i%2],
			CompressionAlgorithm: alg,
		}
		logger := logging.NewLogger(logging.LevelDisabled, io.Discard)
		fmt.Printf("C21 acceleration probe %d alg=%s\n", i, alg)
		var eps [2]synchronization.Endpoint
		var err error
		eps[0], err = local.NewEndpoint(logger, L.root("a"), L.session, synchronization.DefaultVersion, cfg, true)
		if err != nil {
			r.Inconclusive("accel-probe-endpoint")
			continue
		}
		clientEnd, serverEnd := newDuplex(rng)
		served := make(chan error, 1)
		go func() { served <- remote.ServeEndpoint(logger, serverEnd) }()
		eps[1], err = remote.NewEndpoint(logger, clientEnd, R.root("a"), R.session, synchronization.DefaultVersion, cfg, true)
		if err != nil {
			eps[0].Shutdown()
			clientEnd.Close()
			<-served
			r.Inconclusive("accel-probe-endpoint")
			continue
		}
		var journal []string
		fail := func(rule, what string) {
			r.Violation(map[string]string{"rule": rule, "operation": "Scan", "state": "accelerated"}, fmt.Sprintf("acceleration probe %d: %s", i, what),
				map[string]any{"probe": i, "compression": alg.String(), "configuration": cfgJSON(cfg), "journal": journal})
		}
		scan := func(full bool) ([2]*core.Snapshot, bool) {
			var out [2]*core.Snapshot
			var errs [2]error
			for k, s := range sides {
				sn, err, _ := eps[k].Scan(context.Background(), nil, full)
				out[k], errs[k] = cloneSnapshot(sn, s), err
			}
			journal = append(journal, fmt.Sprintf("Scan(full=%v) errors %v / %v", full, errs[0], errs[1]))
			r.Count("accelerated_state_scans", 1)
			if (errs[0] == nil) != (errs[1] == nil) {
				fail("error-mismatch", fmt.Sprintf("Scan(full=%v): local error %s, remote error %s", full, errText(errs[0]), errText(errs[1])))
				return out, false
			}
			return out, errs[0] == nil
		}
		func() {
			defer func() {
				eps[0].Shutdown()
				eps[1].Shutdown()
				clientEnd.Close()
				select {
				case <-served:
				case <-time.After(30 * time.Second):
				}
				os.RemoveAll(base)
			}()
			// 1. Observe acceleration on both sides: after an edit a regular scan
			//    still returns a snapshot without the new file. Bounded by a number
			//    of attempts, not by a time budget.
			accelerated := false
			for attempt := 0; attempt < 400 && !accelerated; attempt++ {
				name := fmt.Sprintf("probe-%03d", attempt)
				write(name, 5)
				journal = append(journal, "write "+name)
				sn, ok := scan(false)
				if !ok {
					return
				}
				accelerated = !hasName(sn[0], name) && !hasName(sn[1], name)
				if !accelerated {
					time.Sleep(10 * time.Millisecond) // let the watchers' baseline scans finish
				}
			}
			if !accelerated {
				r.Inconclusive("acceleration-not-observed-on-both-sides")
				return
			}
			r.Count("acceleration_observed_on_both_sides", 1)
			// 2. A full scan on both refreshes both to the current disk.
			sn, ok := scan(true)
			if !ok {
				return
			}
			if d := snapshotsEqual(sn[0], sn[1]); d != "" {
				fail("snapshot-mismatch", "Scan(full=true) in the accelerated state: "+d)
				return
			}
			for round := 0; round < 3; round++ {
				marker := fmt.Sprintf("marker-%d", round)
				write(marker, 7+round)
				journal = append(journal, "write "+marker)
				// 3. regular scans: both still serve the previous snapshot
				reg, ok := scan(false)
				if !ok {
					return
				}
				if hasName(reg[0], marker) {
					// the control: acceleration is not active on the local side (any more)
					r.Inconclusive("acceleration-lost-on-local-side")
					return
				}
				if d := snapshotsEqual(reg[0], reg[1]); d != "" {
					fail("snapshot-mismatch", fmt.Sprintf("regular Scan in the accelerated state after writing %s: %s", marker, d))
					return
				}
				// 4. full scans: both must see the marker
				full, ok := scan(true)
				if !ok {
					return
				}
				if !hasName(full[0], marker) {
					r.Inconclusive("local-full-scan-did-not-see-marker")
					return
				}
				if d := snapshotsEqual(full[0], full[1]); d != "" {
					fail("snapshot-mismatch", fmt.Sprintf("Scan(full=true) in the accelerated state after writing %s (remote sees the marker: %v): %s", marker, hasName(full[1], marker), d))
					return
				}
				r.Count("full_scans_compared_while_accelerated", 1)
				r.Distinct(fmt.Sprintf("accel|%s|round%d", alg, round))
			}
			r.Eval(1)
		}()
	}
}
