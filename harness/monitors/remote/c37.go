package main

import (
	"context"
	"fmt"
	"io"
	"math"
	"math/rand"
	"os"
	"path/filepath"
	"runtime"
	"sort"
	"strings"
	"sync"

	"google.golang.org/protobuf/encoding/protojson"
	"google.golang.org/protobuf/proto"
	"google.golang.org/protobuf/reflect/protoreflect"
	"google.golang.org/protobuf/types/known/timestamppb"

	"github.com/mutagen-io/mutagen/pkg/filesystem"
	"github.com/mutagen-io/mutagen/pkg/filesystem/behavior"
	"github.com/mutagen-io/mutagen/pkg/identifier"
	"github.com/mutagen-io/mutagen/pkg/logging"
	synchronizationsvc "github.com/mutagen-io/mutagen/pkg/service/synchronization"
	"github.com/mutagen-io/mutagen/pkg/synchronization"
	"github.com/mutagen-io/mutagen/pkg/synchronization/compression"
	"github.com/mutagen-io/mutagen/pkg/synchronization/core"
	"github.com/mutagen-io/mutagen/pkg/synchronization/core/ignore"
	"github.com/mutagen-io/mutagen/pkg/synchronization/endpoint/local"
	"github.com/mutagen-io/mutagen/pkg/synchronization/endpoint/remote"
	"github.com/mutagen-io/mutagen/pkg/synchronization/hashing"
	"github.com/mutagen-io/mutagen/pkg/url"

	"verif/internal/vk"
)

// ---------------------------------------------------------------- domains

// cfgField is one field of synchronization.Configuration with its small value
// domain; value 0 of every domain is the field's default (unset) value.
type cfgField struct {
	fd     protoreflect.FieldDescriptor
	name   string
	values []func(m protoreflect.Message) // setters, index 0 = leave default
	labels []string
}

const undeclaredEnum = 99

func buildFields() []*cfgField {
	md := (&synchronization.Configuration{}).ProtoReflect().Descriptor()
	var out []*cfgField
	fds := md.Fields()
	for i := 0; i < fds.Len(); i++ {
		fd := fds.Get(i)
		f := &cfgField{fd: fd, name: string(fd.Name())}
		add := func(label string, set func(m protoreflect.Message)) {
			f.values = append(f.values, set)
			f.labels = append(f.labels, label)
		}
		add("default", func(protoreflect.Message) {})
		scalar := func(label string, v protoreflect.Value) {
			add(label, func(m protoreflect.Message) { m.Set(fd, v) })
		}
		switch {
		case fd.IsList() && fd.Kind() == protoreflect.StringKind:
			for _, l := range [][]string{{"*.o"}, {"*.o", "/build"}} {
				l := l
				add(strings.Join(l, ","), func(m protoreflect.Message) {
					lst := m.Mutable(fd).List()
					for _, s := range l {
						lst.Append(protoreflect.ValueOfString(s))
					}
				})
			}
		case fd.Kind() == protoreflect.EnumKind:
			// default + every declared value (supported or not) + one undeclared
			evs := fd.Enum().Values()
			for j := 0; j < evs.Len(); j++ {
				if n := evs.Get(j).Number(); n != 0 {
					scalar(string(evs.Get(j).Name()), protoreflect.ValueOfEnum(n))
				}
			}
			scalar("undeclared(99)", protoreflect.ValueOfEnum(undeclaredEnum))
		case fd.Kind() == protoreflect.Uint64Kind:
			scalar("1", protoreflect.ValueOfUint64(1))
			scalar("max", protoreflect.ValueOfUint64(math.MaxUint64))
		case fd.Kind() == protoreflect.Uint32Kind && strings.HasSuffix(f.name, "Mode"):
			for _, v := range []uint32{0o600, 0o644, 0o700, 0o755, 0o1644} {
				scalar(fmt.Sprintf("0%o", v), protoreflect.ValueOfUint32(v))
			}
		case fd.Kind() == protoreflect.Uint32Kind:
			scalar("1", protoreflect.ValueOfUint32(1))
			scalar("max", protoreflect.ValueOfUint32(math.MaxUint32))
		case fd.Kind() == protoreflect.StringKind:
			scalar("id:0", protoreflect.ValueOfString("id:0"))
			scalar("id:x(bad)", protoreflect.ValueOfString("id:x"))
		default:
			// A field of a kind this monitor does not know: leave only the
			// default, and say so in the evidence.
			f.labels[0] = "default(unknown kind " + fd.Kind().String() + ")"
		}
		out = append(out, f)
	}
	return out
}

// combo holds one value index per (configuration, field): configuration 0 is
// the session-wide one, 1 alpha-specific, 2 beta-specific.
type combo [3][]uint8

func newCombo(nf int) combo {
	return combo{make([]uint8, nf), make([]uint8, nf), make([]uint8, nf)}
}

func (c combo) clone() combo {
	d := newCombo(len(c[0]))
	for i := range c {
		copy(d[i], c[i])
	}
	return d
}

var cfgNames = [3]string{"session", "alpha", "beta"}

func (c combo) build(fields []*cfgField) [3]*synchronization.Configuration {
	var out [3]*synchronization.Configuration
	for k := 0; k < 3; k++ {
		cfg := &synchronization.Configuration{}
		m := cfg.ProtoReflect()
		for i, f := range fields {
			f.values[c[k][i]](m)
		}
		out[k] = cfg
	}
	return out
}

func (c combo) describe(fields []*cfgField) map[string]string {
	out := map[string]string{}
	for k := 0; k < 3; k++ {
		var parts []string
		for i, f := range fields {
			if c[k][i] != 0 {
				parts = append(parts, f.name+"="+f.labels[c[k][i]])
			}
		}
		out[cfgNames[k]] = strings.Join(parts, " ")
	}
	return out
}

func (c combo) shape(fields []*cfgField) string {
	var sb strings.Builder
	for k := 0; k < 3; k++ {
		for i := range fields {
			if c[k][i] != 0 {
				fmt.Fprintf(&sb, "%d.%d,", k, i)
			}
		}
	}
	return sb.String()
}

// ---------------------------------------------------------------- reference

// refMerge is the field-by-field specification of configuration merging: the
// endpoint-specific (higher) value unless it is the default; list fields are
// concatenated, session-wide entries first.
func refMerge(lower, higher *synchronization.Configuration) *synchronization.Configuration {
	out := &synchronization.Configuration{}
	lm, hm, om := lower.ProtoReflect(), higher.ProtoReflect(), out.ProtoReflect()
	fds := om.Descriptor().Fields()
	for i := 0; i < fds.Len(); i++ {
		fd := fds.Get(i)
		if fd.IsList() {
			ll, hl := lm.Get(fd).List(), hm.Get(fd).List()
			if ll.Len()+hl.Len() == 0 {
				continue
			}
			dst := om.Mutable(fd).List()
			for j := 0; j < ll.Len(); j++ {
				dst.Append(ll.Get(j))
			}
			for j := 0; j < hl.Len(); j++ {
				dst.Append(hl.Get(j))
			}
		} else if hm.Has(fd) {
			om.Set(fd, hm.Get(fd))
		} else if lm.Has(fd) {
			om.Set(fd, lm.Get(fd))
		}
	}
	return out
}

// listsEqualInOrder compares the repeated string fields element by element
// (proto.Equal does this too; kept explicit because order is the property).
func firstDifferingField(a, b *synchronization.Configuration) string {
	am, bm := a.ProtoReflect(), b.ProtoReflect()
	fds := am.Descriptor().Fields()
	for i := 0; i < fds.Len(); i++ {
		fd := fds.Get(i)
		if fd.IsList() {
			al, bl := am.Get(fd).List(), bm.Get(fd).List()
			if al.Len() != bl.Len() {
				return string(fd.Name())
			}
			for j := 0; j < al.Len(); j++ {
				if al.Get(j).String() != bl.Get(j).String() {
					return string(fd.Name())
				}
			}
		} else if !am.Get(fd).Equal(bm.Get(fd)) {
			return string(fd.Name())
		}
	}
	return ""
}

// fieldOfError maps the text of a configuration validation error to the
// configuration field it is about (used only to give violations a specific
// signature).
func fieldOfError(msg string) string {
	m := strings.ToLower(msg)
	table := []struct{ needle, field string }{
		{"default file permission mode", "defaultFileMode"},
		{"file mode", "defaultFileMode"},
		{"default directory permission mode", "defaultDirectoryMode"},
		{"directory mode", "defaultDirectoryMode"},
		{"default owner", "defaultOwner"},
		{"default group", "defaultGroup"},
		{"ownership", "defaultOwner"},
		{"synchronization mode", "synchronizationMode"},
		{"hashing algorithm", "hashingAlgorithm"},
		{"probe mode", "probeMode"},
		{"scan mode", "scanMode"},
		{"staging mode", "stageMode"},
		{"symbolic link mode", "symbolicLinkMode"},
		{"watch mode", "watchMode"},
		{"ignore syntax", "ignoreSyntax"},
		{"vcs ignore mode", "ignoreVCSMode"},
		{"ignorer", "ignores"},
		{"ignores", "ignores"},
		{"permissions mode", "permissionsMode"},
		{"compression", "compressionAlgorithm"},
	}
	for _, t := range table {
		if strings.Contains(m, t.needle) {
			return t.field
		}
	}
	return "unknown"
}

// ---------------------------------------------------------------- acceptance

// accepts is the validation session creation performs on the three
// configurations: exactly the three calls made by
// service/synchronization.CreationSpecification.ensureValid (and by
// Session.EnsureValid). The real handler is cross-checked on a sample.
func accepts(cfgs [3]*synchronization.Configuration) (bool, string) {
	if err := cfgs[0].EnsureValid(false); err != nil {
		return false, "session: " + err.Error()
	}
	if err := cfgs[1].EnsureValid(true); err != nil {
		return false, "alpha: " + err.Error()
	}
	if err := cfgs[2].EnsureValid(true); err != nil {
		return false, "beta: " + err.Error()
	}
	return true, ""
}

type c37State struct {
	r      *vk.Run
	fields []*cfgField
	byName map[string]int

	mu        sync.Mutex
	initQueue []combo          // combos selected for real endpoint initialization
	initSeen  map[string]bool  // by shape+values
	defectMin map[string]combo // minimal witness per reported violation signature
	tries     map[string]int   // candidates of a signature submitted to the real handler
	stride    int
	accepted  int64

	// the real creation path
	manager *synchronization.Manager
	server  *synchronizationsvc.Server
	rootA   string
	rootB   string
	hmu     sync.Mutex
	hcache  map[string]handlerVerdict
}

type handlerVerdict struct {
	accepted bool
	err      string
}

// maxConfirmations bounds how many candidates of one violation signature are
// submitted to the real handler when it keeps rejecting them (the situation
// after the creation path has been repaired).
const maxConfirmations = 300

func (c combo) key() string {
	return string(c[0]) + "|" + string(c[1]) + "|" + string(c[2])
}

// startHandler creates the real Manager and gRPC service implementation.
func (s *c37State) startHandler() error {
	logger := logging.NewLogger(logging.LevelDisabled, io.Discard)
	manager, err := synchronization.NewManager(logger)
	if err != nil {
		return err
	}
	s.manager = manager
	s.server = synchronizationsvc.NewServer(manager)
	s.rootA = filepath.Join(s.r.Scratch(), "handler-alpha")
	s.rootB = filepath.Join(s.r.Scratch(), "handler-beta")
	os.MkdirAll(s.rootA, 0o755)
	os.MkdirAll(s.rootB, 0o755)
	s.hcache = map[string]handlerVerdict{}
	return nil
}

func (s *c37State) specification(cfgs [3]*synchronization.Configuration) *synchronizationsvc.CreationSpecification {
	return &synchronizationsvc.CreationSpecification{
		Alpha:              &url.URL{Kind: url.Kind_Synchronization, Protocol: url.Protocol_Local, Path: s.rootA},
		Beta:               &url.URL{Kind: url.Kind_Synchronization, Protocol: url.Protocol_Local, Path: s.rootB},
		Configuration:      cfgs[0],
		ConfigurationAlpha: cfgs[1],
		ConfigurationBeta:  cfgs[2],
		Paused:             true, // validation and persistence only; endpoints are initialized separately
	}
}

// handlerAccepts drives the real Server.Create (real Manager, paused session)
// with the combination: this is the ground truth for "creation accepts".
func (s *c37State) handlerAccepts(c combo) handlerVerdict {
	k := c.key()
	s.hmu.Lock()
	v, ok := s.hcache[k]
	s.hmu.Unlock()
	if ok {
		return v
	}
	cfgs := c.build(s.fields)
	var resp *synchronizationsvc.CreateResponse
	var cerr error
	s.r.Guard(c.describe(s.fields), func() {
		resp, cerr = s.server.Create(context.Background(), &synchronizationsvc.CreateRequest{Prompter: "verif-no-prompter", Specification: s.specification(cfgs)})
	})
	v = handlerVerdict{accepted: cerr == nil && resp != nil && resp.Session != ""}
	if cerr != nil {
		v.err = cerr.Error()
	}
	s.r.Count("handler_creations", 1)
	if v.accepted {
		s.r.Count("handler_accepted", 1)
	}
	s.hmu.Lock()
	s.hcache[k] = v
	s.hmu.Unlock()
	return v
}

func sigKey(sig map[string]string) string {
	keys := make([]string, 0, len(sig))
	for k := range sig {
		keys = append(keys, k)
	}
	sort.Strings(keys)
	var sb strings.Builder
	for _, k := range keys {
		sb.WriteString(k + "=" + sig[k] + ";")
	}
	return sb.String()
}

// violatesSame reports whether combo c still shows a violation with signature key.
func (s *c37State) pureViolations(c combo) map[string]string {
	out := map[string]string{}
	cfgs := c.build(s.fields)
	if ok, _ := accepts(cfgs); !ok {
		return out
	}
	for side := 1; side <= 2; side++ {
		merged := synchronization.MergeConfigurations(cfgs[0], cfgs[side])
		if err := merged.EnsureValid(false); err != nil {
			sig := map[string]string{"rule": "accepted-but-merged-invalid", "field": fieldOfError(err.Error()), "side": cfgNames[side]}
			out[sigKey(sig)] = err.Error()
		}
		if effectivePortable(merged) && merged.DefaultFileMode&0o111 != 0 {
			sig := map[string]string{"rule": "portable-with-executable-default-file-mode", "field": "defaultFileMode", "side": cfgNames[side]}
			out[sigKey(sig)] = fmt.Sprintf("0%o", merged.DefaultFileMode)
		}
	}
	return out
}

// minimize greedily resets fields to their defaults while the violation with
// the given signature persists.
func (s *c37State) minimize(c combo, key string) combo {
	c = c.clone()
	for k := 0; k < 3; k++ {
		for i := range s.fields {
			if c[k][i] == 0 {
				continue
			}
			old := c[k][i]
			c[k][i] = 0
			if _, still := s.pureViolations(c)[key]; !still {
				c[k][i] = old
			}
		}
	}
	return c
}

func effectivePortable(merged *synchronization.Configuration) bool {
	pm := merged.PermissionsMode
	if pm.IsDefault() {
		pm = synchronization.DefaultVersion.DefaultPermissionsMode()
	}
	return pm == core.PermissionsMode_PermissionsModePortable
}

func cfgJSON(c *synchronization.Configuration) string {
	b, err := protojson.MarshalOptions{}.Marshal(c)
	if err != nil {
		return err.Error()
	}
	return string(b)
}

func (s *c37State) witness(c combo, extra map[string]any) map[string]any {
	cfgs := c.build(s.fields)
	w := map[string]any{
		"combination":            c.describe(s.fields),
		"configuration":          cfgJSON(cfgs[0]),
		"configurationAlpha":     cfgJSON(cfgs[1]),
		"configurationBeta":      cfgJSON(cfgs[2]),
		"merged_alpha":           cfgJSON(synchronization.MergeConfigurations(cfgs[0], cfgs[1])),
		"merged_beta":            cfgJSON(synchronization.MergeConfigurations(cfgs[0], cfgs[2])),
		"creation_validation_by": "Configuration.EnsureValid(false) on the session configuration and EnsureValid(true) on both endpoint-specific ones (what CreationSpecification.ensureValid and Session.EnsureValid call)",
	}
	for k, v := range extra {
		w[k] = v
	}
	return w
}

// evaluate runs all pure checks on one combination.
func (s *c37State) evaluate(c combo, mergeOnRejected bool) {
	r := s.r
	cfgs := c.build(s.fields)
	r.Eval(1)
	ok, why := accepts(cfgs)

	// Merge law (a pure function; checked for rejected combinations too,
	// because the statement about precedence and list order is unconditional).
	var merged [3]*synchronization.Configuration
	for side := 1; side <= 2; side++ {
		merged[side] = synchronization.MergeConfigurations(cfgs[0], cfgs[side])
		if !ok && !mergeOnRejected {
			continue
		}
		want := refMerge(cfgs[0], cfgs[side])
		if !proto.Equal(merged[side], want) || firstDifferingField(merged[side], want) != "" {
			f := firstDifferingField(merged[side], want)
			r.Violation(map[string]string{"rule": "merge-differs-from-reference", "field": f, "side": cfgNames[side]},
				fmt.Sprintf("MergeConfigurations(session, %s-specific) differs from the field-by-field reference in field %s", cfgNames[side], f),
				s.witness(c, map[string]any{"got": cfgJSON(merged[side]), "want": cfgJSON(want)}))
		}
		r.Count("merges_checked", 1)
	}

	if !ok {
		r.Count("rejected_by_configuration_validation", 1)
		_ = why
		return
	}
	r.Count("accepted_by_configuration_validation", 1)
	r.Distinct("accepted|" + c.shape(s.fields))

	violated := false
	for side := 1; side <= 2; side++ {
		m := merged[side]
		if err := m.EnsureValid(false); err != nil {
			sig := map[string]string{"rule": "accepted-but-merged-invalid", "field": fieldOfError(err.Error()), "side": cfgNames[side]}
			if s.report(c, sig, fmt.Sprintf("Server.Create accepts the configurations, but the effective %s configuration is invalid: %v", cfgNames[side], err)) {
				violated = true
			}
		}
		if effectivePortable(m) && m.DefaultFileMode&0o111 != 0 {
			sig := map[string]string{"rule": "portable-with-executable-default-file-mode", "field": "defaultFileMode", "side": cfgNames[side]}
			if s.report(c, sig, fmt.Sprintf("combination accepted by Server.Create yields effective default file mode 0%o with executable bits for %s under portable permissions", m.DefaultFileMode, cfgNames[side])) {
				violated = true
			}
		}
	}

	// Select for real endpoint initialization: every combination that showed a
	// pure violation (a few per kind) and a stride sample of the others.
	s.mu.Lock()
	s.accepted++
	take := false
	if violated {
		k := "v|" + c.shape(s.fields)
		if !s.initSeen[k] && len(s.initSeen) < 40 {
			s.initSeen[k] = true
			take = true
		}
	} else if s.accepted%int64(s.stride) == 0 {
		take = true
	}
	if take {
		s.initQueue = append(s.initQueue, c.clone())
	}
	s.mu.Unlock()
}

// report handles a candidate violation: a combination that passes the three
// Configuration.EnsureValid calls and breaks a rule. It becomes a violation
// only if the real handler Server.Create accepts it; it is filed once per
// signature with a minimized witness. The result says whether the candidate
// counts as a violating accepted combination.
func (s *c37State) report(c combo, sig map[string]string, what string) bool {
	key := sigKey(sig)
	s.r.Count("candidates:"+sig["rule"], 1)
	s.mu.Lock()
	if _, done := s.defectMin[key]; done {
		s.mu.Unlock()
		return true
	}
	if s.tries[key] >= maxConfirmations {
		s.mu.Unlock()
		s.r.Count("candidates_not_submitted_to_handler", 1)
		return false
	}
	s.tries[key]++
	s.mu.Unlock()

	v := s.handlerAccepts(c)
	if !v.accepted {
		s.r.Count("candidates_rejected_by_real_handler", 1)
		s.r.Note("last_handler_rejection", v.err)
		return false
	}
	min := s.minimize(c, key)
	if !s.handlerAccepts(min).accepted {
		min = c
	}
	s.mu.Lock()
	if _, done := s.defectMin[key]; done {
		s.mu.Unlock()
		return true
	}
	s.defectMin[key] = min
	s.mu.Unlock()
	s.r.Violation(sig, what, s.witness(min, map[string]any{"minimal": true, "accepted_by": "service/synchronization.Server.Create (real Manager, paused session)", "first_seen_in": c.describe(s.fields)}))
	return true
}

// ---------------------------------------------------------------- enumeration

func (s *c37State) enumerate() {
	r := s.r
	nf := len(s.fields)
	var n int64

	// Block A: for every field, the full cube of (session, alpha, beta) values.
	for i, f := range s.fields {
		d := len(f.values)
		for a := 0; a < d; a++ {
			for b := 0; b < d; b++ {
				for c := 0; c < d; c++ {
					cb := newCombo(nf)
					cb[0][i], cb[1][i], cb[2][i] = uint8(a), uint8(b), uint8(c)
					s.evaluate(cb, true)
					n++
				}
			}
		}
	}
	r.Count("block_per_field_cube", n)

	// Block B: the interacting group, exhaustively: permissions mode (session)
	// x default file mode (session, alpha, beta) x default directory mode
	// (session, alpha) x permissions mode set on an endpoint or not.
	pm, fm, dm := s.byName["permissionsMode"], s.byName["defaultFileMode"], s.byName["defaultDirectoryMode"]
	n = 0
	if pm >= 0 && fm >= 0 && dm >= 0 {
		P, F, D := len(s.fields[pm].values), len(s.fields[fm].values), len(s.fields[dm].values)
		for p := 0; p < P; p++ {
			for f0 := 0; f0 < F; f0++ {
				for f1 := 0; f1 < F; f1++ {
					for f2 := 0; f2 < F; f2++ {
						for d0 := 0; d0 < D; d0++ {
							for d1 := 0; d1 < D; d1++ {
								cb := newCombo(nf)
								cb[0][pm] = uint8(p)
								cb[0][fm], cb[1][fm], cb[2][fm] = uint8(f0), uint8(f1), uint8(f2)
								cb[0][dm], cb[1][dm] = uint8(d0), uint8(d1)
								s.evaluate(cb, false)
								n++
							}
						}
					}
				}
			}
		}
	}
	r.Count("block_permission_group_product", n)

	// Block C: every pair of (configuration, field) slots with every pair of
	// values, all other slots default.
	type slot struct{ k, i int }
	var slots []slot
	for k := 0; k < 3; k++ {
		for i := range s.fields {
			slots = append(slots, slot{k, i})
		}
	}
	n = 0
	for x := 0; x < len(slots); x++ {
		for y := x + 1; y < len(slots); y++ {
			sx, sy := slots[x], slots[y]
			for vx := 1; vx < len(s.fields[sx.i].values); vx++ {
				for vy := 1; vy < len(s.fields[sy.i].values); vy++ {
					cb := newCombo(nf)
					cb[sx.k][sx.i], cb[sy.k][sy.i] = uint8(vx), uint8(vy)
					s.evaluate(cb, false)
					n++
				}
			}
		}
	}
	r.Count("block_pairwise", n)

	// Block D: random combinations, biased to the default and to values an
	// endpoint-specific configuration may carry, so that many are accepted
	// with several non-default fields at once.
	total := r.Pick(120000, 3000000)
	workers := runtime.NumCPU()
	if workers > 16 {
		workers = 16
	}
	var wg sync.WaitGroup
	for w := 0; w < workers; w++ {
		wg.Add(1)
		go func(w int) {
			defer wg.Done()
			rng := r.Rand(fmt.Sprintf("random-%d", w))
			for j := 0; j < total/workers; j++ {
				cb := newCombo(nf)
				pDefault := 0.35 + 0.6*rng.Float64()
				for k := 0; k < 3; k++ {
					for i, f := range s.fields {
						if rng.Float64() < pDefault || len(f.values) == 1 {
							continue
						}
						v := 1 + rng.Intn(len(f.values)-1)
						// the last value of a domain is the invalid one; the
						// endpoint-only-forbidden fields are tried rarely
						if v == len(f.values)-1 && rng.Intn(12) != 0 {
							continue
						}
						if k > 0 && s.endpointForbidden(i) && rng.Intn(25) != 0 {
							continue
						}
						cb[k][i] = uint8(v)
					}
				}
				s.evaluate(cb, j%8 == 0)
			}
		}(w)
	}
	wg.Wait()
	r.Count("block_random", int64(total/workers*workers))
}

// endpointForbidden: whether setting field i on an endpoint-specific
// configuration is rejected by the real validation (probed, not assumed).
func (s *c37State) endpointForbidden(i int) bool {
	f := s.fields[i]
	for v := 1; v < len(f.values); v++ {
		cfg := &synchronization.Configuration{}
		f.values[v](cfg.ProtoReflect())
		if cfg.EnsureValid(true) == nil {
			return false
		}
	}
	return true
}

// ---------------------------------------------------------------- real handler

// realHandler cross-checks the three validation routes on a sample and
// returns the combinations of the endpoint-initialization queue that the real
// handler accepts.
func (s *c37State) realHandler(sample []combo) {
	r := s.r
	sessionID, err := identifier.New(identifier.PrefixSynchronization)
	if err != nil {
		r.Inconclusive("identifier-unavailable")
		return
	}
	for _, c := range sample {
		cfgs := c.build(s.fields)
		want, _ := accepts(cfgs)
		v := s.handlerAccepts(c)
		spec := s.specification(cfgs)
		// Session.EnsureValid on the session object creation stores (and a
		// restarted daemon validates when loading it).
		sess := &synchronization.Session{
			Identifier: sessionID, Version: synchronization.DefaultVersion,
			CreationTime: timestamppb.Now(), Alpha: spec.Alpha, Beta: spec.Beta,
			Configuration: cfgs[0], ConfigurationAlpha: cfgs[1], ConfigurationBeta: cfgs[2],
		}
		serr := sess.EnsureValid()
		r.Count("handler_cross_checks", 1)
		switch {
		case v.accepted && !want:
			r.Violation(map[string]string{"rule": "handler-accepts-invalid-part"},
				"Server.Create accepts a specification one of whose three configurations fails Configuration.EnsureValid", s.witness(c, nil))
		case v.accepted && serr != nil:
			r.Violation(map[string]string{"rule": "created-session-fails-session-validation"},
				fmt.Sprintf("Server.Create accepts a specification whose stored session fails Session.EnsureValid: %v", serr), s.witness(c, nil))
		case !v.accepted && want:
			// the handler is stricter than the per-configuration validation: allowed
			r.Count("handler_stricter_than_configuration_validation", 1)
		}
	}
}

// ---------------------------------------------------------------- real endpoints

func (s *c37State) realEndpoints() {
	r := s.r
	queue := s.initQueue
	r.Count("endpoint_init_combinations", int64(len(queue)))
	base := filepath.Join(r.Scratch(), "init")
	workers := runtime.NumCPU()
	if workers > 16 {
		workers = 16
	}
	var wg sync.WaitGroup
	ch := make(chan int)
	for w := 0; w < workers; w++ {
		wg.Add(1)
		go func(w int) {
			defer wg.Done()
			for idx := range ch {
				c := queue[idx]
				cfgs := c.build(s.fields)
				for side := 1; side <= 2; side++ {
					merged := synchronization.MergeConfigurations(cfgs[0], cfgs[side])
					alpha := side == 1
					root := filepath.Join(base, fmt.Sprintf("w%d", w), fmt.Sprintf("c%d-%s", idx, cfgNames[side]), "root")
					os.MkdirAll(root, 0o755)
					os.WriteFile(filepath.Join(root, "file.txt"), []byte("content"), 0o644)
					session := fmt.Sprintf("sync_c37case%06d", idx)
					logger := logging.NewLogger(logging.LevelDisabled, io.Discard)
					fmt.Printf("C37 init case %d side=%s %v\n", idx, cfgNames[side], c.describe(s.fields))

					// local endpoint
					var lerr error
					r.Guard(c.describe(s.fields), func() {
						ep, err := local.NewEndpoint(logger, root, session+"L", synchronization.DefaultVersion, merged, alpha)
						lerr = err
						if err == nil {
							ep.Shutdown()
						}
					})
					r.Count("local_endpoint_initializations", 1)
					if lerr != nil {
						sig := map[string]string{"rule": "local-endpoint-rejects", "field": fieldOfError(lerr.Error()), "side": cfgNames[side]}
						if s.firstOf(sig) {
							r.Violation(sig, fmt.Sprintf("Server.Create accepts, but local.NewEndpoint rejects the effective %s configuration: %v", cfgNames[side], lerr), s.witness(c, nil))
						}
					} else {
						r.Count("local_endpoint_accepted", 1)
					}

					// remote endpoint: real handshake over an in-memory stream
					var rerr, serr error
					r.Guard(c.describe(s.fields), func() {
						rng := rand.New(rand.NewSource(int64(idx)*2 + int64(side)))
						clientEnd, serverEnd := newDuplex(rng)
						served := make(chan error, 1)
						go func() { served <- remote.ServeEndpoint(logger, serverEnd) }()
						ep, err := remote.NewEndpoint(logger, clientEnd, root, session+"R", synchronization.DefaultVersion, merged, alpha)
						rerr = err
						if err == nil {
							ep.Shutdown()
						}
						clientEnd.Close()
						serr = <-served
					})
					_ = serr
					r.Count("remote_endpoint_initializations", 1)
					if rerr != nil {
						sig := map[string]string{"rule": "remote-endpoint-rejects", "field": fieldOfError(rerr.Error()), "side": cfgNames[side]}
						r.Count("remote_endpoint_rejections", 1)
						if s.firstOf(sig) {
							min := s.minimizeFor(c, side)
							if !s.handlerAccepts(min).accepted {
								min = c
							}
							r.Violation(sig, fmt.Sprintf("Server.Create accepts, but the remote endpoint handshake (remote.NewEndpoint <-> ServeEndpoint) rejects the effective %s configuration: %v (local.NewEndpoint error: %v)", cfgNames[side], rerr, lerr),
								s.witness(min, map[string]any{"remote_error": rerr.Error(), "local_error": fmt.Sprint(lerr), "first_seen_in": c.describe(s.fields)}))
						}
					} else {
						r.Count("remote_endpoint_accepted", 1)
						r.Distinct("init|" + c.shape(s.fields) + "|" + cfgNames[side])
					}
					os.RemoveAll(filepath.Dir(root))
				}
			}
		}(w)
	}
	for i := range queue {
		ch <- i
	}
	close(ch)
	wg.Wait()
}

// firstOf reports whether this is the first endpoint-level violation with the
// given signature (they are filed once each; all are counted).
func (s *c37State) firstOf(sig map[string]string) bool {
	key := "endpoint|" + sigKey(sig)
	s.mu.Lock()
	defer s.mu.Unlock()
	if s.initSeen[key] {
		return false
	}
	s.initSeen[key] = true
	return true
}

// minimizeFor reduces a combination whose merged configuration for the given
// side is invalid (the condition under which the remote endpoint refuses).
func (s *c37State) minimizeFor(c combo, side int) combo {
	bad := func(c combo) bool {
		cfgs := c.build(s.fields)
		if ok, _ := accepts(cfgs); !ok {
			return false
		}
		return synchronization.MergeConfigurations(cfgs[0], cfgs[side]).EnsureValid(false) != nil
	}
	if !bad(c) {
		return c
	}
	c = c.clone()
	for k := 0; k < 3; k++ {
		for i := range s.fields {
			if c[k][i] == 0 {
				continue
			}
			old := c[k][i]
			c[k][i] = 0
			if !bad(c) {
				c[k][i] = old
			}
		}
	}
	return c
}

// ---------------------------------------------------------------- text round trips

type textCase struct {
	typ       string
	number    int32
	name      string
	supported bool
	text      string
	back      int32
	err       error
}

func enumNumbers(d protoreflect.EnumDescriptor) (nums []int32, names []string) {
	vs := d.Values()
	for i := 0; i < vs.Len(); i++ {
		nums = append(nums, int32(vs.Get(i).Number()))
		names = append(names, string(vs.Get(i).Name()))
	}
	return
}

func c37TextRoundTrips(r *vk.Run) {
	var cases []textCase
	add := func(typ string, d protoreflect.EnumDescriptor, f func(n int32) (bool, []byte, int32, error)) {
		nums, names := enumNumbers(d)
		for i, n := range nums {
			sup, text, back, err := f(n)
			cases = append(cases, textCase{typ, n, names[i], sup, string(text), back, err})
		}
	}
	add("core.SynchronizationMode", core.SynchronizationMode(0).Descriptor(), func(n int32) (bool, []byte, int32, error) {
		v := core.SynchronizationMode(n)
		t, _ := v.MarshalText()
		var w core.SynchronizationMode
		err := w.UnmarshalText(t)
		return v.Supported(), t, int32(w), err
	})
	add("hashing.Algorithm", hashing.Algorithm(0).Descriptor(), func(n int32) (bool, []byte, int32, error) {
		v := hashing.Algorithm(n)
		t, _ := v.MarshalText()
		var w hashing.Algorithm
		err := w.UnmarshalText(t)
		return v.SupportStatus() == hashing.AlgorithmSupportStatusSupported, t, int32(w), err
	})
	add("behavior.ProbeMode", behavior.ProbeMode(0).Descriptor(), func(n int32) (bool, []byte, int32, error) {
		v := behavior.ProbeMode(n)
		t, _ := v.MarshalText()
		var w behavior.ProbeMode
		err := w.UnmarshalText(t)
		return v.Supported(), t, int32(w), err
	})
	add("synchronization.ScanMode", synchronization.ScanMode(0).Descriptor(), func(n int32) (bool, []byte, int32, error) {
		v := synchronization.ScanMode(n)
		t, _ := v.MarshalText()
		var w synchronization.ScanMode
		err := w.UnmarshalText(t)
		return v.Supported(), t, int32(w), err
	})
	add("synchronization.StageMode", synchronization.StageMode(0).Descriptor(), func(n int32) (bool, []byte, int32, error) {
		v := synchronization.StageMode(n)
		t, _ := v.MarshalText()
		var w synchronization.StageMode
		err := w.UnmarshalText(t)
		return v.Supported(), t, int32(w), err
	})
	add("core.SymbolicLinkMode", core.SymbolicLinkMode(0).Descriptor(), func(n int32) (bool, []byte, int32, error) {
		v := core.SymbolicLinkMode(n)
		t, _ := v.MarshalText()
		var w core.SymbolicLinkMode
		err := w.UnmarshalText(t)
		return v.Supported(), t, int32(w), err
	})
	add("synchronization.WatchMode", synchronization.WatchMode(0).Descriptor(), func(n int32) (bool, []byte, int32, error) {
		v := synchronization.WatchMode(n)
		t, _ := v.MarshalText()
		var w synchronization.WatchMode
		err := w.UnmarshalText(t)
		return v.Supported(), t, int32(w), err
	})
	add("ignore.Syntax", ignore.Syntax(0).Descriptor(), func(n int32) (bool, []byte, int32, error) {
		v := ignore.Syntax(n)
		t, _ := v.MarshalText()
		var w ignore.Syntax
		err := w.UnmarshalText(t)
		return v.Supported(), t, int32(w), err
	})
	// ignore.IgnoreVCSMode has UnmarshalText only (it is never written as text), so there is nothing to round-trip.
	add("core.PermissionsMode", core.PermissionsMode(0).Descriptor(), func(n int32) (bool, []byte, int32, error) {
		v := core.PermissionsMode(n)
		t, _ := v.MarshalText()
		var w core.PermissionsMode
		err := w.UnmarshalText(t)
		return v.Supported(), t, int32(w), err
	})
	add("compression.Algorithm", compression.Algorithm(0).Descriptor(), func(n int32) (bool, []byte, int32, error) {
		v := compression.Algorithm(n)
		t, _ := v.MarshalText()
		var w compression.Algorithm
		err := w.UnmarshalText(t)
		return v.SupportStatus() == compression.AlgorithmSupportStatusSupported, t, int32(w), err
	})
	supported := 0
	for _, c := range cases {
		r.Eval(1)
		if !c.supported {
			continue
		}
		supported++
		if c.err != nil || c.back != c.number {
			r.Violation(map[string]string{"rule": "text-round-trip", "type": c.typ, "value": c.name},
				fmt.Sprintf("%s value %s is written as %q and read back as %d (error: %v)", c.typ, c.name, c.text, c.back, c.err), c)
		} else {
			r.Distinct("text|" + c.typ + "|" + c.name)
		}
	}
	r.Count("text_round_trips_supported_enum_values", int64(supported))

	// Permission modes as text (the form used in YAML/flags): every value of
	// the permission mask.
	n := 0
	for m := filesystem.Mode(1); m <= filesystem.ModePermissionsMask; m++ {
		t, err := m.MarshalText()
		var back filesystem.Mode
		if err == nil {
			err = back.UnmarshalText(t)
		}
		r.Eval(1)
		n++
		if err != nil || back != m {
			r.Violation(map[string]string{"rule": "text-round-trip", "type": "filesystem.Mode"},
				fmt.Sprintf("filesystem.Mode 0%o is written as %q and read back as 0%o (error: %v)", uint32(m), t, uint32(back), err), map[string]any{"mode": uint32(m), "text": string(t)})
		}
	}
	r.Count("text_round_trips_file_modes", int64(n))
}

// ---------------------------------------------------------------- driver

func c37() {
	r := vk.Start("C37", "exploration")
	s := &c37State{r: r, fields: buildFields(), byName: map[string]int{}, initSeen: map[string]bool{}, defectMin: map[string]combo{}, tries: map[string]int{}}
	if err := s.startHandler(); err != nil {
		fmt.Printf("ERROR: cannot create the real synchronization manager: %v\n", err)
		r.Inconclusive("manager-unavailable")
		r.Finish("no verdict: the real session manager could not be created", 1<<30)
	}
	for _, n := range []string{"permissionsMode", "defaultFileMode", "defaultDirectoryMode"} {
		s.byName[n] = -1
	}
	domains := map[string]string{}
	for i, f := range s.fields {
		s.byName[f.name] = i
		domains[f.name] = strings.Join(f.labels, " | ")
	}
	r.Note("domains", domains)
	// stride so that roughly the requested number of accepted combinations
	// get real endpoint initialization (accepted is about 45% of evaluated).
	s.stride = r.Pick(120, 1000)

	c37TextRoundTrips(r)
	c37MergeAliasing(r)
	s.enumerate()

	// Real gRPC handler on a sample: a stride of the per-field cubes plus the
	// endpoint-initialization sample.
	var sample []combo
	sample = append(sample, s.initQueue...)
	rng := r.Rand("handler-sample")
	nf := len(s.fields)
	for j := 0; j < r.Pick(1500, 10000); j++ {
		cb := newCombo(nf)
		for k := 0; k < 3; k++ {
			for x := 0; x < 1+rng.Intn(3); x++ {
				i := rng.Intn(nf)
				cb[k][i] = uint8(rng.Intn(len(s.fields[i].values)))
			}
		}
		sample = append(sample, cb)
	}
	s.realHandler(sample)
	// Only combinations the real handler accepts go on to endpoint initialization.
	var queue []combo
	for _, c := range s.initQueue {
		if s.handlerAccepts(c).accepted {
			queue = append(queue, c)
		}
	}
	s.initQueue = queue
	s.realEndpoints()
	s.c37IgnoreOrder()

	for k, c := range s.defectMin {
		r.Note("minimal:"+k, c.describe(s.fields))
	}
	s.manager.Shutdown()
	stopProfile()
	r.Assume("'creation accepts' is decided by the three Configuration.EnsureValid calls that CreationSpecification.ensureValid and Session.EnsureValid make; the real handler Server.Create (paused sessions, real Manager) and Session.EnsureValid are cross-checked against it on a sample")
	r.Assume("ignore patterns are drawn from syntactically valid patterns only: configuration.go documents that patterns are validated at endpoint initialization, not at creation")
	r.Assume("the monitor runs as root, so the owner specification id:0 can be resolved; zstandard/xxh128 are not built in and count as unsupported values")
	r.Finish("per-field cubes (session x alpha x beta), the full product of the permission group, all pairs of (configuration, field) slots with all value pairs, and seeded random combinations over small per-field domains derived from the Configuration descriptor; distinct = set of non-default (configuration, field) slots of an accepted combination, (slots, side) of a combination whose effective configuration passed real local and remote endpoint initialization, and supported enum values that round-trip through text", 200)
}
