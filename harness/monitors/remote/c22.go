package main

import (
	"bufio"
	"encoding/binary"
	"fmt"
	"math"
	"math/rand"
	"os"
	"runtime"
	"runtime/debug"
	"strings"
	"sync"
	"time"

	"google.golang.org/protobuf/encoding/protowire"
	"google.golang.org/protobuf/proto"

	"github.com/mutagen-io/mutagen/pkg/encoding"
	streampkg "github.com/mutagen-io/mutagen/pkg/stream"
	"github.com/mutagen-io/mutagen/pkg/synchronization"
	"github.com/mutagen-io/mutagen/pkg/synchronization/compression"
	"github.com/mutagen-io/mutagen/pkg/synchronization/core"
	"github.com/mutagen-io/mutagen/pkg/synchronization/endpoint/remote"
	"github.com/mutagen-io/mutagen/pkg/synchronization/rsync"

	"verif/internal/gen"
	"verif/internal/vk"
)

// Buffer sizes of the control stream, as in endpoint/remote/protocol.go
// (controlStreamCompressedBufferSize, controlStreamUncompressedBufferSize; unexported).
const (
	ctlCompressedBuffer   = 64 * 1024
	ctlUncompressedBuffer = 64 * 1024
	// protobufDecoderMaximumAllowedMessageSize of pkg/encoding/protobuf.go (unexported).
	decoderLimit = 100 * 1024 * 1024
)

// framedWriter is the outbound half of a control stream, built exactly like
// remote.NewEndpoint / remote.ServeEndpoint build it.
type framedWriter struct {
	outbound           *bufio.Writer
	compressor         streampkg.WriteFlushCloser
	compressedOutbound *bufio.Writer
	flusher            streampkg.Flusher
	encoder            *encoding.ProtobufEncoder
}

func newFramedWriter(alg compression.Algorithm, wire *fragPipe) *framedWriter {
	w := &framedWriter{}
	w.compressedOutbound = bufio.NewWriterSize(wire, ctlCompressedBuffer)
	w.compressor = alg.Compress(w.compressedOutbound)
	w.outbound = bufio.NewWriterSize(w.compressor, ctlUncompressedBuffer)
	w.flusher = streampkg.NewMultiFlusher(w.outbound, w.compressor, w.compressedOutbound)
	w.encoder = encoding.NewProtobufEncoder(w.outbound)
	return w
}

// close mirrors the endpoints' multi-closer order.
func (w *framedWriter) close(wire *fragPipe) {
	w.outbound.Flush()
	w.compressor.Close()
	w.compressedOutbound.Flush()
	wire.Close()
}

func newFramedDecoder(alg compression.Algorithm, wire *fragPipe) *encoding.ProtobufDecoder {
	compressedInbound := bufio.NewReaderSize(wire, ctlCompressedBuffer)
	decompressor := alg.Decompress(compressedInbound)
	inbound := bufio.NewReaderSize(decompressor, ctlUncompressedBuffer)
	return encoding.NewProtobufDecoder(inbound)
}

// ---------------------------------------------------------------- messages

// Payload bytes are slices of two shared read-only pools (incompressible
// noise and compressible text): generating megabytes byte by byte under the
// race detector would dominate the run without adding any diversity that
// matters to framing.
var (
	poolOnce  sync.Once
	noisePool []byte
	textPool  []byte
)

const poolSize = 4 << 20

func pools() {
	poolOnce.Do(func() {
		noisePool = make([]byte, poolSize)
		textPool = make([]byte, poolSize)
		x := uint64(0x9e3779b97f4a7c15)
		for i := 0; i+8 <= poolSize; i += 8 {
			x ^= x << 13
			x ^= x >> 7
			x ^= x << 17
			binary.LittleEndian.PutUint64(noisePool[i:], x)
			binary.LittleEndian.PutUint64(textPool[i:], 0x6161616161616161+(x&0x0303030300000003))
		}
	})
}

func randBytes(r *rand.Rand, n int, compressible bool) []byte {
	pools()
	if n > poolSize {
		n = poolSize
	}
	off := r.Intn(poolSize - n + 1)
	if compressible {
		return textPool[off : off+n : off+n]
	}
	return noisePool[off : off+n : off+n]
}

func randSignature(r *rand.Rand, blocks int) *rsync.Signature {
	if blocks == 0 {
		return &rsync.Signature{}
	}
	s := &rsync.Signature{BlockSize: uint64(1024 << r.Intn(4)), LastBlockSize: uint64(1 + r.Intn(1024))}
	for i := 0; i < blocks; i++ {
		s.Hashes = append(s.Hashes, &rsync.BlockHash{Weak: r.Uint32(), Strong: randBytes(r, 20, false)})
	}
	return s
}

func randPaths(r *rand.Rand, n int) ([]string, [][]byte) {
	ps := make([]string, n)
	ds := make([][]byte, n)
	for i := range ps {
		ps[i] = fmt.Sprintf("dir%d/sub%d/file-%d.dat", r.Intn(40), r.Intn(40), i)
		ds[i] = randBytes(r, 20, false)
	}
	return ps, ds
}

func randEntry(r *rand.Rand, depth int) *core.Entry {
	return gen.RandomEntry(r, gen.RandomTreeConfig{Names: []string{"a", "b", "c", "d", "é"}, MaxDepth: depth, DirBias: 0.6, AbsentBias: 0.1, Unsync: true}, 0, false)
}

// sizeClass buckets the wire size of a message.
func sizeClass(n int) string {
	switch {
	case n == 0:
		return "0"
	case n < 128:
		return "<128"
	case n < 16384:
		return "<16K"
	case n < 65536:
		return "<64K"
	case n < 1<<20:
		return "<1M"
	default:
		return ">=1M"
	}
}

// deepEntry is a chain of depth single-child directories ending in a file
// (depth 0 = just the file). Every directory level costs two levels of
// protobuf nesting (the entry and its map element).
func deepEntry(r *rand.Rand, depth int) *core.Entry {
	e := &core.Entry{Kind: core.EntryKind_File, Digest: randBytes(r, 20, false), Executable: r.Intn(2) == 0}
	for i := 0; i < depth; i++ {
		e = &core.Entry{Kind: core.EntryKind_Directory, Contents: map[string]*core.Entry{fmt.Sprintf("d%d", i%10): e}}
	}
	return e
}

// maxNestingDepth keeps deeply nested messages well below protobuf-go's
// default recursion limit of 10000 levels (2 levels per directory plus the
// enclosing request/change/archive messages), which the unchanged decoder uses.
const maxNestingDepth = 2000

var nestingDepths = []int{0, 1, 2, 10, 24, 25, 48, 49, 50, 51, 60, 99, 100, 101, 150, 200, 500, 1000, 1999, maxNestingDepth}

// deepMessage is a real protocol message carrying an entry tree of the given depth.
func deepMessage(r *rand.Rand, depth int) proto.Message {
	switch r.Intn(3) {
	case 0:
		return &remote.EndpointRequest{Transition: &remote.TransitionRequest{Transitions: []*core.Change{{Path: "p", New: deepEntry(r, depth)}}}}
	case 1:
		return &remote.EndpointRequest{Transition: &remote.TransitionRequest{Transitions: []*core.Change{{Path: "p", Old: deepEntry(r, depth), New: deepEntry(r, depth/2)}}}}
	default:
		return &remote.TransitionResponse{Results: []*core.Archive{{Content: deepEntry(r, depth)}, {}}}
	}
}

// randMessage draws a real protocol message. class: 0 empty, 1 tiny, 2 medium,
// 3 around the 64 KiB buffer boundaries, 4 >= 1 MiB.
func randMessage(r *rand.Rand, class int, maxLarge int) proto.Message {
	switch class {
	case 0:
		switch r.Intn(6) {
		case 0:
			return &remote.PollCompletionRequest{}
		case 1:
			return &remote.ScanCompletionRequest{}
		case 2:
			return &remote.TransitionCompletionRequest{}
		case 3:
			return &remote.InitializeSynchronizationResponse{}
		case 4:
			return &remote.PollResponse{}
		default:
			return &rsync.Transmission{}
		}
	case 1:
		switch r.Intn(8) {
		case 0:
			return &remote.EndpointRequest{Poll: &remote.PollRequest{}}
		case 1:
			return &remote.EndpointRequest{Scan: &remote.ScanRequest{BaselineSnapshotSignature: randSignature(r, r.Intn(3)), Full: r.Intn(2) == 0}}
		case 2:
			return &remote.StageResponse{Error: "unable to begin staging: multiple staging operations performed without scan"}
		case 3:
			return &rsync.Transmission{Done: true, Error: strings.Repeat("e", r.Intn(40))}
		case 4:
			return &remote.ScanResponse{Error: "exceeded allowed entry count", TryAgain: true}
		case 5:
			return &remote.TransitionResponse{StagerMissingFiles: true, Problems: []*core.Problem{{Path: "a/b", Error: "x"}}}
		case 6:
			return &remote.InitializeSynchronizationRequest{Session: "sync_x", Version: synchronization.Version_Version1, Root: "/r", Alpha: true,
				Configuration: &synchronization.Configuration{Ignores: []string{"*.o"}, DefaultFileMode: 0o644, MaximumEntryCount: math.MaxUint64}}
		default:
			return &rsync.Transmission{ExpectedSize: uint64(r.Int63()), Operation: &rsync.Operation{Start: uint64(r.Intn(9)), Count: uint64(r.Intn(9))}}
		}
	case 2:
		switch r.Intn(6) {
		case 0:
			ps, ds := randPaths(r, 1+r.Intn(200))
			return &remote.EndpointRequest{Stage: &remote.StageRequest{Paths: ps, Digests: ds}}
		case 1:
			n := 1 + r.Intn(40)
			ps, _ := randPaths(r, n)
			sigs := make([]*rsync.Signature, n)
			for i := range sigs {
				sigs[i] = randSignature(r, r.Intn(12))
			}
			if r.Intn(2) == 0 {
				ps = nil // the "all paths required" shorthand
			}
			return &remote.StageResponse{Paths: ps, Signatures: sigs}
		case 2:
			var cs []*core.Change
			for i := 0; i < 1+r.Intn(6); i++ {
				cs = append(cs, &core.Change{Path: fmt.Sprintf("p%d", i), Old: randEntry(r, 2), New: randEntry(r, 3)})
			}
			return &remote.EndpointRequest{Transition: &remote.TransitionRequest{Transitions: cs}}
		case 3:
			var rs []*core.Archive
			for i := 0; i < 1+r.Intn(6); i++ {
				a := &core.Archive{}
				if r.Intn(3) > 0 {
					a.Content = randEntry(r, 3)
				}
				rs = append(rs, a)
			}
			return &remote.TransitionResponse{Results: rs}
		case 4:
			return &rsync.Transmission{Operation: &rsync.Operation{Data: randBytes(r, 1+r.Intn(16000), r.Intn(2) == 0)}}
		default:
			n := 1 + r.Intn(20)
			ps, _ := randPaths(r, n)
			sigs := make([]*rsync.Signature, n)
			for i := range sigs {
				sigs[i] = randSignature(r, r.Intn(30))
			}
			return &remote.EndpointRequest{Supply: &remote.SupplyRequest{Paths: ps, Signatures: sigs}}
		}
	case 3:
		// Straddle the 32 KiB initial buffers and the 64 KiB bufio layers.
		base := []int{32 * 1024, 64 * 1024, 128 * 1024}[r.Intn(3)]
		n := base - 16 + r.Intn(32)
		if r.Intn(2) == 0 {
			return &rsync.Transmission{Operation: &rsync.Operation{Data: randBytes(r, n, r.Intn(2) == 0)}}
		}
		return &remote.ScanResponse{SnapshotDelta: []*rsync.Operation{{Start: 0, Count: 3}, {Data: randBytes(r, n, r.Intn(2) == 0)}}}
	default:
		n := (1 << 20) + r.Intn(maxLarge-(1<<20)+1)
		switch r.Intn(3) {
		case 0:
			var ops []*rsync.Operation
			left := n
			for left > 0 {
				k := 1 + r.Intn(1<<19)
				if k > left {
					k = left
				}
				ops = append(ops, &rsync.Operation{Data: randBytes(r, k, r.Intn(2) == 0)})
				if r.Intn(3) == 0 {
					ops = append(ops, &rsync.Operation{Start: uint64(r.Intn(100)), Count: uint64(1 + r.Intn(100))})
				}
				left -= k
			}
			return &remote.ScanResponse{SnapshotDelta: ops}
		case 1:
			return &rsync.Transmission{ExpectedSize: uint64(n), Operation: &rsync.Operation{Data: randBytes(r, n, r.Intn(2) == 0)}}
		default:
			ps, ds := randPaths(r, n/60+1)
			return &remote.EndpointRequest{Stage: &remote.StageRequest{Paths: ps, Digests: ds}}
		}
	}
}

// ---------------------------------------------------------------- one case

type c22Case struct {
	Index  int
	Alg    compression.Algorithm
	Style  int
	Seed   int64
	msgs   []proto.Message
	flush  []int // number of Flush calls after message i (0 = none)
	depths []int // directory-chain depths of the deeply nested messages in msgs
}

func (c *c22Case) describe() map[string]any {
	var shape []string
	for i, m := range c.msgs {
		shape = append(shape, fmt.Sprintf("%s/%d/f%d", m.ProtoReflect().Descriptor().Name(), proto.Size(m), c.flush[i]))
	}
	if len(shape) > 40 {
		shape = append(shape[:40], fmt.Sprintf("... %d more", len(shape)-40))
	}
	return map[string]any{"case": c.Index, "nesting_depths": c.depths, "algorithm": c.Alg.String(), "fragment_style": c.Style, "pipe_seed": c.Seed, "messages(type/size/flushes)": shape}
}

func genC22Case(r *rand.Rand, index int, largeEvery int, quick bool) *c22Case {
	c := &c22Case{Index: index, Seed: r.Int63(), Style: r.Intn(fragStyles)}
	c.Alg = []compression.Algorithm{compression.Algorithm_AlgorithmNone, compression.Algorithm_AlgorithmDeflate}[index%2]
	n := 1 + r.Intn(30)
	// Messages >= 1 MiB are expensive under the race detector (shadow memory
	// of every large allocation is remapped), so only every largeEvery-th
	// pair of cases (one per algorithm) carries them.
	wantLarge := (index/2)%largeEvery == 0
	if wantLarge && quick && (c.Style == 1 || c.Style == 2) {
		c.Style = 3 // a megabyte in 1..64-byte reads costs ~10 s under -race; thorough keeps it
	}
	maxLarge := 3 << 20
	largeBudget := 2
	if c.Style == 1 || c.Style == 2 {
		// tiny fragments: keep the byte volume of a case bounded
		maxLarge = (1 << 20) + 4096
		largeBudget = 1
	}
	for i := 0; i < n; i++ {
		class := []int{0, 1, 1, 1, 2, 2, 2, 3}[r.Intn(8)]
		if wantLarge && largeBudget > 0 && (r.Intn(n) == 0 || i == n-1) {
			class = 4
			largeBudget--
			if largeBudget == 0 || r.Intn(2) == 0 {
				wantLarge = false
			}
		}
		var m proto.Message
		if (index/2)%4 == 1 && (r.Intn(n) == 0 || i == n-1) || r.Intn(40) == 0 {
			// deeply nested entry trees: every fourth pair of cases carries at
			// least one, with a depth from the fixed list or a random one
			depth := nestingDepths[r.Intn(len(nestingDepths))]
			if r.Intn(3) == 0 {
				depth = r.Intn(maxNestingDepth + 1)
			}
			m = deepMessage(r, depth)
			c.depths = append(c.depths, depth)
		} else {
			m = randMessage(r, class, maxLarge)
		}
		c.msgs = append(c.msgs, m)
		f := 0
		switch index % 5 {
		case 0: // flush after every message, like request/response traffic
			f = 1
		case 1: // only at the end
		default:
			if r.Intn(3) == 0 {
				f = 1 + r.Intn(5)/4 // occasionally two flushes in a row
			}
		}
		c.flush = append(c.flush, f)
	}
	if c.flush[n-1] == 0 {
		c.flush[n-1] = 1
	}
	return c
}

// c22Session is one long-lived control stream (writer stack, wire, reader
// stack, decoder goroutine), as an endpoint connection is: cases are run
// through it one after the other, so compressor and buffer state carries over
// from case to case. (Building a DEFLATE stack costs ~0.2 s under -race,
// which is the other reason not to build one per case.)
type c22Session struct {
	alg  compression.Algorithm
	mu   *sync.Mutex
	wire *fragPipe
	w    *framedWriter
	dec  *encoding.ProtobufDecoder

	// protected by mu
	expect       []proto.Message // messages the decoder is to expect next (prototypes)
	next         int             // index into expect of the message being decoded
	decoded      []proto.Message
	decErr       error
	dead         bool
	closing      bool
	extraMessage bool
	extraErr     error

	history []int // case indices run through this session
	done    chan struct{}
}

func newC22Session(alg compression.Algorithm, seed int64) *c22Session {
	s := &c22Session{alg: alg, mu: &sync.Mutex{}, done: make(chan struct{})}
	s.wire = newFragPipe(seed, 0, s.mu)
	s.w = newFramedWriter(alg, s.wire)
	s.dec = newFramedDecoder(alg, s.wire)
	go s.decodeLoop()
	return s
}

func (s *c22Session) decodeLoop() {
	defer close(s.done)
	for {
		s.mu.Lock()
		for s.next >= len(s.expect) && !s.closing {
			s.wire.cond.Wait() // idle: nothing announced, so nothing is outstanding
		}
		if s.next >= len(s.expect) {
			s.mu.Unlock()
			break
		}
		m := s.expect[s.next].ProtoReflect().New().Interface()
		s.mu.Unlock()
		err := s.dec.Decode(m)
		s.mu.Lock()
		if err != nil {
			s.decErr, s.dead = err, true
			s.wire.cond.Broadcast()
			s.mu.Unlock()
			return
		}
		s.decoded = append(s.decoded, m)
		s.next++
		s.wire.cond.Broadcast()
		s.mu.Unlock()
	}
	// The stream has been shut down: a further decode may only report its end.
	extra := &rsync.Transmission{}
	err := s.dec.Decode(extra)
	s.mu.Lock()
	s.extraErr = err
	s.extraMessage = err == nil
	s.mu.Unlock()
}

// finish shuts the stream down the way the endpoints do and checks that the
// decoder sees the end of the stream and nothing else.
func (s *c22Session) finish(r *vk.Run, healthy bool) {
	s.mu.Lock()
	s.closing = true
	s.wire.cond.Broadcast()
	s.mu.Unlock()
	s.w.close(s.wire)
	<-s.done
	s.mu.Lock()
	defer s.mu.Unlock()
	r.Count("wire_bytes", s.wire.delivered)
	r.Count("wire_reads", s.wire.reads)
	r.Count("reader_starve_events", s.wire.starves)
	r.Count("streams", 1)
	if !healthy {
		return
	}
	if s.extraMessage || s.extraErr == nil {
		r.Violation(map[string]string{"rule": "phantom-message", "algorithm": s.alg.String()}, "a message was decoded after the last written message when the stream was shut down",
			map[string]any{"algorithm": s.alg.String(), "cases_on_this_stream": s.history})
	} else {
		r.Count("streams_ended_cleanly", 1)
	}
}

// runC22Case runs one case through the session. It returns false if the
// session can no longer be used (a violation was found).
func runC22Case(r *vk.Run, s *c22Session, c *c22Case) bool {
	s.history = append(s.history, c.Index)
	s.mu.Lock()
	s.wire.style = c.Style
	s.wire.rng = rand.New(rand.NewSource(c.Seed))
	s.expect, s.next, s.decoded = nil, 0, nil
	s.mu.Unlock()
	w, wire, mu := s.w, s.wire, s.mu

	fail := func(rule, what string, extra map[string]any) {
		wit := c.describe()
		wit["earlier_cases_on_this_stream"] = append([]int(nil), s.history[:len(s.history)-1]...)
		for k, v := range extra {
			wit[k] = v
		}
		r.Violation(map[string]string{"rule": rule, "algorithm": c.Alg.String()}, what, wit)
	}

	written := 0
	sinceFlush := 0
	for i, m := range c.msgs {
		mu.Lock()
		s.expect = append(s.expect, m)
		wire.cond.Broadcast()
		mu.Unlock()
		if err := w.encoder.Encode(m); err != nil {
			fail("encode-error", fmt.Sprintf("encoder rejected message %d: %v", i, err), nil)
			return false
		}
		written++
		sinceFlush++
		for k := 0; k < c.flush[i]; k++ {
			if err := w.flusher.Flush(); err != nil {
				fail("flush-error", fmt.Sprintf("flush after message %d failed: %v", i, err), nil)
				return false
			}
		}
		if c.flush[i] == 0 {
			continue
		}
		// Flush point: every byte of messages 0..i has been handed to the wire.
		// Wait (event-driven, no timeout) until the decoder has delivered all
		// of them or is blocked on an empty wire.
		mu.Lock()
		for len(s.decoded) < written && !s.dead && !wire.starvedLocked() {
			wire.cond.Wait()
		}
		nd, isDead, err := len(s.decoded), s.dead, s.decErr
		deliveredBytes := wire.delivered
		mu.Unlock()
		r.Count("flush_points_checked", 1)
		if isDead {
			fail("decode-error", fmt.Sprintf("decoder failed at message %d of %d written: %v", nd, written, err), map[string]any{"decoded": nd, "written": written})
			return false
		}
		if nd < written {
			fail("starved-with-messages-outstanding",
				fmt.Sprintf("after flushing message %d the reader consumed all wire bytes (%d on this stream) and blocked on the empty pipe with only %d of %d messages decoded", i, deliveredBytes, nd, written),
				map[string]any{"decoded": nd, "written": written, "flush_after_message": i})
			return false
		}
		r.Distinct(fmt.Sprintf("%s|s%d|%s|%s|n%d|f%d", c.Alg, c.Style, m.ProtoReflect().Descriptor().Name(), sizeClass(proto.Size(m)), bucket(sinceFlush), c.flush[i]))
		sinceFlush = 0
	}

	// The last message is always followed by a flush, so everything is decoded.
	mu.Lock()
	decoded := s.decoded
	mu.Unlock()
	r.Count("messages_decoded", int64(len(decoded)))
	if len(decoded) != len(c.msgs) {
		fail("decode-error", fmt.Sprintf("decoded %d of %d messages", len(decoded), len(c.msgs)), nil)
		return false
	}
	for i := range c.msgs {
		if !proto.Equal(c.msgs[i], decoded[i]) {
			fail("message-altered", fmt.Sprintf("message %d (%s, %d bytes) was decoded as a different message", i, c.msgs[i].ProtoReflect().Descriptor().Name(), proto.Size(c.msgs[i])), map[string]any{"index": i})
			return false
		}
		r.Count("messages_"+sizeClass(proto.Size(c.msgs[i])), 1)
	}
	for _, d := range c.depths {
		r.Count("nested_messages_decoded", 1)
		if d >= 50 {
			r.Count("nested_messages_decoded_depth>=50", 1)
		}
		if d >= 1000 {
			r.Count("nested_messages_decoded_depth>=1000", 1)
		}
		b := 0
		for _, t := range []int{1, 10, 50, 100, 500, 1000, 2000} {
			if d >= t {
				b = t
			}
		}
		r.Distinct(fmt.Sprintf("nesting|%s|>=%d", c.Alg, b))
	}
	return true
}

func bucket(n int) int {
	switch {
	case n <= 1:
		return 1
	case n <= 3:
		return 3
	case n <= 8:
		return 8
	default:
		return 99
	}
}

// ---------------------------------------------------------------- oversize prefixes

// probePrefix writes a bare length prefix (no body) through the real writer
// stack and reports how the decoder reacted.
type prefixOutcome struct {
	Returned bool   // Decode returned (before the reader starved)
	Err      string // its error
	Starved  bool   // the decoder asked for bytes beyond the prefix
	Alloc    uint64 // bytes allocated by the process during the call
}

func probePrefix(alg compression.Algorithm, prefix []byte, seed int64, style int) prefixOutcome {
	mu := &sync.Mutex{}
	wire := newFragPipe(seed, style, mu)
	w := newFramedWriter(alg, wire)
	dec := newFramedDecoder(alg, wire)
	w.outbound.Write(prefix)
	w.flusher.Flush()

	var out prefixOutcome
	var returned bool
	var rerr error
	done := make(chan struct{})
	var before, after runtime.MemStats
	runtime.ReadMemStats(&before)
	go func() {
		defer close(done)
		m := &remote.EndpointRequest{}
		err := dec.Decode(m)
		mu.Lock()
		returned, rerr = true, err
		wire.cond.Broadcast()
		mu.Unlock()
	}()
	mu.Lock()
	for !returned && !wire.starvedLocked() {
		wire.cond.Wait()
	}
	out.Returned = returned
	out.Starved = !returned
	if returned && rerr != nil {
		out.Err = rerr.Error()
	}
	mu.Unlock()
	runtime.ReadMemStats(&after)
	out.Alloc = after.TotalAlloc - before.TotalAlloc
	wire.Close()
	<-done
	return out
}

func c22Oversize(r *vk.Run) {
	rng := r.Rand("oversize")
	algs := []compression.Algorithm{compression.Algorithm_AlgorithmNone, compression.Algorithm_AlgorithmDeflate}
	const allocBound = 16 << 20 // far below the smallest rejected size (100 MiB + 1)

	// Control: a prefix below the limit is legal, so the decoder must ask
	// for the body (the starve sensor fires) and the allocation sensor must
	// see the buffer. This shows both sensors are alive.
	// (32 MiB rather than the 100 MiB limit itself: under -race an allocation
	// of 100 MiB costs ten seconds of shadow-memory work.)
	const controlSize = 32 << 20
	ctl := probePrefix(algs[0], protowire.AppendVarint(nil, controlSize), rng.Int63(), 3)
	sensorsAlive := ctl.Starved && ctl.Alloc >= controlSize
	r.Note("oversize_control", map[string]any{"prefix": controlSize, "decoder_waited_for_body": ctl.Starved, "allocated_bytes": ctl.Alloc})
	if !sensorsAlive {
		r.Inconclusive("oversize-control-sensor-not-alive")
	}
	runtime.GC()

	values := []uint64{decoderLimit + 1, decoderLimit + 2, 1 << 27, 1<<31 - 1, 1 << 31, 1 << 32, 1 << 40, 1 << 62, 1 << 63, math.MaxUint64}
	for _, alg := range algs {
		broken := false
		for _, v := range values {
			if broken {
				break // do not feed even larger sizes to a decoder that does not reject
			}
			nStyles := 2
			if alg == compression.Algorithm_AlgorithmDeflate {
				nStyles = 1 // building a DEFLATE stack is slow under -race
			}
			for style := 0; style < nStyles; style++ {
				fmt.Printf("C22 oversize case: alg=%s prefix=%d style=%d\n", alg, v, style)
				var o prefixOutcome
				r.Guard(map[string]any{"alg": alg.String(), "prefix": v}, func() {
					o = probePrefix(alg, protowire.AppendVarint(nil, v), rng.Int63(), style)
				})
				r.Eval(1)
				wit := map[string]any{"algorithm": alg.String(), "declared_size": v, "outcome": o}
				switch {
				case o.Starved:
					r.Violation(map[string]string{"rule": "oversize-not-rejected", "algorithm": alg.String()},
						fmt.Sprintf("declared message size %d (> limit %d) was not rejected: the decoder waited for the body (allocated %d bytes)", v, decoderLimit, o.Alloc), wit)
					broken = true
				case o.Err == "":
					r.Violation(map[string]string{"rule": "oversize-not-rejected", "algorithm": alg.String()},
						fmt.Sprintf("declared message size %d (> limit) decoded without error", v), wit)
					broken = true
				case o.Alloc >= allocBound:
					if sensorsAlive {
						r.Violation(map[string]string{"rule": "oversize-allocated", "algorithm": alg.String()},
							fmt.Sprintf("declared message size %d was rejected (%s) but %d bytes were allocated first", v, o.Err, o.Alloc), wit)
					}
					broken = true
				default:
					r.Count("oversize_prefixes_rejected", 1)
					r.Distinct(fmt.Sprintf("oversize|%s|%d|%d", alg, v, style))
				}
				if broken {
					break
				}
			}
		}
		// An over-long varint (11 bytes) must be rejected as well.
		o := probePrefix(alg, []byte{0xff, 0xff, 0xff, 0xff, 0xff, 0xff, 0xff, 0xff, 0xff, 0xff, 0x01}, rng.Int63(), 1)
		r.Eval(1)
		if o.Starved || o.Err == "" {
			r.Violation(map[string]string{"rule": "oversize-not-rejected", "algorithm": alg.String()}, "an 11-byte varint length prefix was not rejected", map[string]any{"algorithm": alg.String(), "outcome": o})
		} else {
			r.Count("oversize_prefixes_rejected", 1)
		}
	}
}

// ---------------------------------------------------------------- driver

func c22() {
	r := vk.Start("C22", "exploration")

	// Sequential part first (allocation is measured process-wide).
	t0 := time.Now()
	c22Oversize(r)
	r.Note("oversize_phase_s", time.Since(t0).Seconds())

	// Every case builds a fresh stack (four 64 KiB buffers, a DEFLATE state of
	// about a megabyte); with the default GC target the tiny live heap makes the
	// collector run continuously, which under -race on a busy machine costs far
	// more than the work itself.
	debug.SetGCPercent(800)
	n := r.Pick(240, 1500)
	largeEvery := r.Pick(30, 8)
	seeds := make([]int64, n)
	rng := r.Rand("cases")
	for i := range seeds {
		seeds[i] = rng.Int63()
	}
	// A case is a pure function of (index, seed); it is generated by the worker
	// that runs it so that generation is parallel and cases are not all alive at once.
	fixedAlgs := []compression.Algorithm{compression.Algorithm_AlgorithmNone, compression.Algorithm_AlgorithmDeflate}
	build := func(index int) *c22Case {
		if index < n {
			return genC22Case(rand.New(rand.NewSource(seeds[index])), index, largeEvery, r.Quick())
		}
		// Deterministic hand-made cases at the end: empty-only, empty/large/empty, tiny with 1-byte fragments.
		k := index - n
		if k >= 6 {
			// every depth of the fixed list, flushed one by one
			alg := fixedAlgs[k-6]
			rr := r.Rand(fmt.Sprintf("nesting-%d", k))
			c := &c22Case{Index: index, Alg: alg, Style: 3, Seed: rr.Int63()}
			for _, d := range nestingDepths {
				c.msgs = append(c.msgs, deepMessage(rr, d))
				c.flush = append(c.flush, 1)
				c.depths = append(c.depths, d)
			}
			return c
		}
		alg := fixedAlgs[k/3]
		rr := r.Rand(fmt.Sprintf("fixed-%d", k))
		switch k % 3 {
		case 0:
			return &c22Case{Index: index, Alg: alg, Style: 3, Seed: rr.Int63(), msgs: []proto.Message{&remote.PollCompletionRequest{}}, flush: []int{1}}
		case 1:
			big := randMessage(rr, 4, 2<<20)
			return &c22Case{Index: index, Alg: alg, Style: 4, Seed: rr.Int63(), msgs: []proto.Message{&remote.ScanCompletionRequest{}, big, &remote.PollCompletionRequest{}, &remote.PollCompletionRequest{}}, flush: []int{0, 1, 1, 2}}
		default:
			return &c22Case{Index: index, Alg: alg, Style: 1, Seed: rr.Int63(), msgs: []proto.Message{&remote.EndpointRequest{Poll: &remote.PollRequest{}}, &remote.PollCompletionRequest{}}, flush: []int{1, 1}}
		}
	}
	total := n + 8

	// Static partition: worker w runs the cases i = w (mod workers) in order,
	// each algorithm through its own long-lived stream, so a run is a pure
	// function of tier and seed. A stream is retired (shut down, end-of-stream
	// checked) after streamLife cases.
	const workers = 16
	streamLife := r.Pick(6, 20)
	only := os.Getenv("VERIF_CASE") // development aid: run a single case index
	var wg sync.WaitGroup
	for w := 0; w < workers; w++ {
		wg.Add(1)
		go func(w int) {
			defer wg.Done()
			sessions := map[compression.Algorithm]*c22Session{}
			for index := w; index < total; index += workers {
				if only != "" && only != fmt.Sprint(index) {
					continue
				}
				c := build(index)
				if index < 3 {
					r.Sample(c.describe())
				}
				fmt.Printf("C22 case %d alg=%s style=%d msgs=%d\n", c.Index, c.Alg, c.Style, len(c.msgs))
				s := sessions[c.Alg]
				if s == nil {
					s = newC22Session(c.Alg, seeds[index%n]^int64(w))
					sessions[c.Alg] = s
				}
				t0 := time.Now()
				ok := false
				r.Guard(c.describe(), func() { ok = runC22Case(r, s, c) })
				r.Eval(1)
				if os.Getenv("VERIF_DEBUG") != "" {
					fmt.Printf("casetime %d %.3f alg=%s style=%d msgs=%d\n", c.Index, time.Since(t0).Seconds(), c.Alg, c.Style, len(c.msgs))
				}
				if !ok || len(s.history) >= streamLife {
					s.finish(r, ok)
					delete(sessions, c.Alg)
				}
			}
			for _, s := range sessions {
				s.finish(r, true)
			}
		}(w)
	}
	wg.Wait()

	stopProfile()
	r.Assume("the writer and reader stacks are rebuilt in the monitor with the same constructors, order and 64 KiB buffer sizes as remote.NewEndpoint/ServeEndpoint (the sizes are unexported constants)")
	r.Assume("zstandard is not built into this binary (SSPL tag off); algorithms none and deflate are covered")
	r.Finish("random sequences of real control-stream messages (empty, tiny, medium, 32/64/128 KiB boundary, >= 1 MiB, entry trees nested 0..2000 directories deep) with random flush points over a pipe with 5 fragmentation styles, both algorithms, plus crafted oversize length prefixes; distinct = (algorithm, fragmentation style, type and size class of the message at the flush point, messages since previous flush, flushes) for flush points where every written message had been decoded before the reader starved, plus (algorithm, size, style) of rejected oversize prefixes", 40)
}
