package main

import (
	"context"
	"fmt"
	"io"
	"math/rand"
	"os"
	"path/filepath"
	"strings"
	"time"

	"github.com/mutagen-io/mutagen/pkg/logging"
	"github.com/mutagen-io/mutagen/pkg/synchronization"
	"github.com/mutagen-io/mutagen/pkg/synchronization/compression"
	"github.com/mutagen-io/mutagen/pkg/synchronization/core"
	"github.com/mutagen-io/mutagen/pkg/synchronization/endpoint/local"
	"github.com/mutagen-io/mutagen/pkg/synchronization/endpoint/remote"

	"verif/internal/vk"
)

// Cancellation of a long Transition.
//
// Exact equality between the local and the remote endpoint cannot be demanded
// here (where the transition stops depends on timing). The oracle is
// one-sided: the same plan (tens of thousands of directory creations) is run
// on a local and on a remote endpoint, and in both runs the context is
// cancelled by an EVENT — the harness sees the third of ~200 top-level
// directories appear on disk — not at a wall-clock time. The remote run is a
// violation only if ALL of the following hold:
//   - the local run, cancelled by the same event, stopped early (it reported
//     "transition cancelled" or applied only part of the plan): the control
//     that the event comes early enough in this process on this machine;
//   - the completion request had been written to the server's stream while at
//     most a quarter of the top-level directories existed;
//   - from that moment the remote call went on for at least 500 ms and at
//     least 20 times the largest heartbeat gap observed in that window (the
//     server had ample scheduler time to react to a message already in its
//     stream);
//   - the remote result is "everything applied, no problem reported".
// Otherwise the case is held (remote stopped early) or inconclusive.

const cancelWidth = 200 // cancelWidth^2 directories

func cancelPlan() *core.Change {
	leafs := func() map[string]*core.Entry {
		m := make(map[string]*core.Entry, cancelWidth)
		for j := 0; j < cancelWidth; j++ {
			m[fmt.Sprintf("s%03d", j)] = &core.Entry{Kind: core.EntryKind_Directory}
		}
		return m
	}
	top := &core.Entry{Kind: core.EntryKind_Directory, Contents: make(map[string]*core.Entry, cancelWidth)}
	for i := 0; i < cancelWidth; i++ {
		top.Contents[fmt.Sprintf("d%03d", i)] = &core.Entry{Kind: core.EntryKind_Directory, Contents: leafs()}
	}
	return &core.Change{Path: "tree", New: top}
}

type cancelRun struct {
	Side             string
	Err              string
	FullyApplied     bool
	Problems         int
	CancelledProblem bool
	TopAtCancel      int     // top-level directories on disk when the context was cancelled
	TopAtRequest     int     // ... when the completion request had been written to the server's stream (remote)
	TopAtReturn      int     // ... when Transition returned
	AfterRequestS    float64 // seconds between that moment and the return
	MaxGapS          float64 // largest heartbeat gap in that window
	TotalS           float64
}

func countTop(root string) int {
	ents, err := os.ReadDir(filepath.Join(root, "tree"))
	if err != nil {
		return 0
	}
	return len(ents)
}

func runCancelSide(remoteSide bool, root, session string, alg compression.Algorithm, seed int64, hb *heartbeat) cancelRun {
	out := cancelRun{Side: map[bool]string{false: "local", true: "remote"}[remoteSide]}
	logger := logging.NewLogger(logging.LevelDisabled, io.Discard)
	cfg := &synchronization.Configuration{WatchMode: synchronization.WatchMode_WatchModeNoWatch, CompressionAlgorithm: alg}
	var ep synchronization.Endpoint
	var err error
	var clientEnd *duplexEnd
	var served chan error
	if remoteSide {
		var serverEnd *duplexEnd
		clientEnd, serverEnd = newDuplex(rand.New(rand.NewSource(seed)))
		served = make(chan error, 1)
		go func() { served <- remote.ServeEndpoint(logger, serverEnd) }()
		ep, err = remote.NewEndpoint(logger, clientEnd, root, session, synchronization.DefaultVersion, cfg, false)
	} else {
		ep, err = local.NewEndpoint(logger, root, session, synchronization.DefaultVersion, cfg, false)
	}
	if err != nil {
		out.Err = "endpoint: " + err.Error()
		return out
	}
	defer func() {
		ep.Shutdown()
		if clientEnd != nil {
			clientEnd.Close()
			<-served
		}
	}()
	if _, err, _ := ep.Scan(context.Background(), nil, true); err != nil {
		out.Err = "scan: " + err.Error()
		return out
	}
	plan := cancelPlan()
	ctx, cancel := context.WithCancel(context.Background())
	defer cancel()
	type mark struct {
		at  time.Time
		top int
	}
	cancelled := make(chan mark, 1)
	requested := make(chan mark, 1)
	stop := make(chan struct{})
	go func() {
		// event-driven trigger: the third top-level directory exists
		for {
			select {
			case <-stop:
				return
			default:
			}
			if n := countTop(root); n >= 3 {
				var before int64
				if clientEnd != nil {
					before = clientEnd.out.writtenBytes()
				}
				cancel()
				cancelled <- mark{time.Now(), n}
				if clientEnd == nil {
					hb.windowMaxNs.Store(0)
					requested <- mark{time.Now(), n}
					return
				}
				// wait until the client has written the completion request
				for clientEnd.out.writtenBytes() == before {
					select {
					case <-stop:
						return
					default:
						time.Sleep(200 * time.Microsecond)
					}
				}
				hb.windowMaxNs.Store(0)
				requested <- mark{time.Now(), countTop(root)}
				return
			}
			time.Sleep(500 * time.Microsecond)
		}
	}()
	t0 := time.Now()
	results, problems, _, terr := ep.Transition(ctx, []*core.Change{plan})
	tEnd := time.Now()
	close(stop)
	out.TotalS = tEnd.Sub(t0).Seconds()
	out.TopAtReturn = countTop(root)
	if terr != nil {
		out.Err = "transition: " + terr.Error()
		return out
	}
	out.Problems = len(problems)
	for _, p := range problems {
		if strings.Contains(p.Error, "cancelled") {
			out.CancelledProblem = true
		}
	}
	out.FullyApplied = len(results) == 1 && entriesEqual(results[0], plan.New)
	select {
	case m := <-cancelled:
		out.TopAtCancel = m.top
	default:
		out.TopAtCancel = -1 // the transition ended before the trigger fired
	}
	select {
	case m := <-requested:
		out.TopAtRequest = m.top
		out.AfterRequestS = tEnd.Sub(m.at).Seconds()
		out.MaxGapS = time.Duration(hb.windowMaxNs.Load()).Seconds()
	default:
		out.TopAtRequest = -1
	}
	return out
}

// c21CancelProbes runs alone (before the program workers start) so that the
// heartbeat window belongs to it.
func c21CancelProbes(r *vk.Run, hb *heartbeat) {
	n := r.Pick(1, 4)
	algs := []compression.Algorithm{compression.Algorithm_AlgorithmDeflate, compression.Algorithm_AlgorithmNone}
	for i := 0; i < n; i++ {
		alg := algs[i%2]
		base := filepath.Join(r.Scratch(), fmt.Sprintf("cancel%02d", i))
		var runs [2]cancelRun
		for k, remoteSide := range []bool{false, true} {
			root := filepath.Join(base, []string{"L", "R"}[k], "root")
			os.MkdirAll(root, 0o755)
			fmt.Printf("C21 cancellation probe %d side=%s alg=%s\n", i, []string{"local", "remote"}[k], alg)
			r.Guard(map[string]any{"probe": i, "remote": remoteSide}, func() {
				runs[k] = runCancelSide(remoteSide, root, fmt.Sprintf("sync_c21cancel%02d%s", i, []string{"L", "R"}[k]), alg, r.Seed*100+int64(i), hb)
			})
		}
		os.RemoveAll(base)
		r.Eval(1)
		l, m := runs[0], runs[1]
		fmt.Printf("C21 cancellation probe %d: local=%+v remote=%+v\n", i, l, m)
		r.Note(fmt.Sprintf("cancellation_probe_%d", i), map[string]any{"local": l, "remote": m, "directories_in_plan": cancelWidth*cancelWidth + cancelWidth + 1})
		localPartial := l.Err == "" && l.TopAtCancel >= 0 && (l.CancelledProblem || !l.FullyApplied)
		remoteFull := m.Err == "" && m.FullyApplied && m.Problems == 0
		remotePartial := m.Err == "" && (m.CancelledProblem || !m.FullyApplied)
		switch {
		case l.Err != "" || m.Err != "":
			r.Inconclusive("cancel-probe-error")
		case !localPartial:
			// the control did not stop early: the trigger is too late on this machine
			r.Inconclusive("cancel-probe-control-not-partial")
		case remotePartial:
			r.Count("cancelled_transitions_stopped_early_on_both_sides", 1)
			r.Distinct(fmt.Sprintf("cancel|%s|local-top%d|remote-top%d", alg, bucket(l.TopAtReturn), bucket(m.TopAtReturn)))
		case remoteFull:
			need := 0.5
			if g := 20 * m.MaxGapS; g > need {
				need = g
			}
			sound := m.TopAtRequest >= 0 && m.TopAtRequest <= cancelWidth/4 && m.AfterRequestS >= need
			if sound {
				r.Violation(map[string]string{"rule": "cancellation-ignored", "operation": "Transition"},
					fmt.Sprintf("the context of a Transition creating %d directories was cancelled when %d of %d top-level directories existed; the local endpoint stopped early (%d top-level directories, cancelled problem=%v), the remote endpoint had the completion request in its stream with %d top-level directories on disk, ran on for %.2f s (largest heartbeat gap %.3f s) and returned everything applied with no problem",
						cancelWidth*cancelWidth, m.TopAtCancel, cancelWidth, l.TopAtReturn, l.CancelledProblem, m.TopAtRequest, m.AfterRequestS, m.MaxGapS),
					map[string]any{"local": l, "remote": m, "compression": alg.String()})
			} else {
				r.Inconclusive("cancel-probe-window-too-short-or-unhealthy")
			}
		default:
			r.Inconclusive("cancel-probe-unclassified")
		}
	}
}
