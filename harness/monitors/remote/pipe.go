package main

import (
	"errors"
	"io"
	"math/rand"
	"sync"
)

// fragPipe is one direction of an in-memory byte pipe. Writes never block (the
// buffer is unbounded, so the harness cannot introduce a deadlock of its own);
// reads deliver a random non-empty fragment of what is buffered. The pipe
// knows, at any instant, whether its reader is blocked on an empty buffer —
// the "starved" state the framing oracle of C22 is defined on.
type fragPipe struct {
	mu   *sync.Mutex
	cond *sync.Cond

	buf     []byte
	off     int
	closed  bool
	rng     *rand.Rand
	style   int
	waiting bool // the reader is inside Read, blocked because buf is empty

	// counters (protected by mu)
	reads     int64
	delivered int64
	starves   int64
	written   int64
}

// writtenBytes returns the number of bytes written into the pipe so far.
func (p *fragPipe) writtenBytes() int64 {
	p.mu.Lock()
	defer p.mu.Unlock()
	return p.written
}

// newFragPipe creates a pipe. If mu is nil the pipe owns a private mutex;
// C22 passes the monitor's mutex so pipe state and decoder progress are read
// atomically.
func newFragPipe(seed int64, style int, mu *sync.Mutex) *fragPipe {
	if mu == nil {
		mu = &sync.Mutex{}
	}
	return &fragPipe{mu: mu, cond: sync.NewCond(mu), rng: rand.New(rand.NewSource(seed)), style: style}
}

const fragStyles = 5

// fragment chooses how many bytes to deliver. Styles: 0 everything that fits,
// 1 mostly single bytes and tiny pieces, 2 small pieces, 3 mixed, 4 mostly
// large with an occasional single byte.
func (p *fragPipe) fragment(avail int) int {
	var n int
	switch p.style {
	case 0:
		n = avail
	case 1:
		switch p.rng.Intn(8) {
		case 0:
			n = 1 + p.rng.Intn(4096)
		case 1, 2:
			n = 1 + p.rng.Intn(16)
		default:
			n = 1
		}
	case 2:
		n = 1 + p.rng.Intn(64)
	case 3:
		switch p.rng.Intn(4) {
		case 0:
			n = 1
		case 1:
			n = 1 + p.rng.Intn(32)
		case 2:
			n = 1 + p.rng.Intn(2048)
		default:
			n = 1 + p.rng.Intn(1<<17)
		}
	default:
		if p.rng.Intn(10) == 0 {
			n = 1
		} else {
			n = 1 + p.rng.Intn(1<<18)
		}
	}
	if n > avail {
		n = avail
	}
	return n
}

func (p *fragPipe) Read(b []byte) (int, error) {
	if len(b) == 0 {
		return 0, nil
	}
	p.mu.Lock()
	defer p.mu.Unlock()
	for len(p.buf)-p.off == 0 {
		if p.closed {
			return 0, io.EOF
		}
		p.waiting = true
		p.starves++
		p.cond.Broadcast() // observers of the starved state
		p.cond.Wait()
	}
	p.waiting = false
	avail := len(p.buf) - p.off
	if avail > len(b) {
		avail = len(b)
	}
	n := p.fragment(avail)
	copy(b, p.buf[p.off:p.off+n])
	p.off += n
	if p.off == len(p.buf) {
		p.buf, p.off = p.buf[:0], 0
	} else if p.off > 1<<20 && p.off > len(p.buf)/2 {
		p.buf = append(p.buf[:0], p.buf[p.off:]...)
		p.off = 0
	}
	p.reads++
	p.delivered += int64(n)
	return n, nil
}

var errPipeClosed = errors.New("verif pipe closed")

func (p *fragPipe) Write(b []byte) (int, error) {
	p.mu.Lock()
	defer p.mu.Unlock()
	if p.closed {
		return 0, errPipeClosed
	}
	if len(b) == 0 {
		return 0, nil
	}
	p.buf = append(p.buf, b...)
	p.written += int64(len(b))
	p.waiting = false // the blocked reader (if any) now has data to deliver
	p.cond.Broadcast()
	return len(b), nil
}

func (p *fragPipe) Close() error {
	p.mu.Lock()
	p.closed = true
	p.cond.Broadcast()
	p.mu.Unlock()
	return nil
}

// starvedLocked reports (caller holds mu) that the reader is blocked and
// nothing is buffered: every byte written so far has been consumed.
func (p *fragPipe) starvedLocked() bool {
	return p.waiting && len(p.buf)-p.off == 0
}

// duplexEnd is one end of a duplex connection made of two fragPipes.
type duplexEnd struct {
	in, out *fragPipe
}

func (d *duplexEnd) Read(b []byte) (int, error)  { return d.in.Read(b) }
func (d *duplexEnd) Write(b []byte) (int, error) { return d.out.Write(b) }

// Close unblocks reads and writes in both directions (the contract
// remote.NewEndpoint and ServeEndpoint require of their stream).
func (d *duplexEnd) Close() error {
	d.in.Close()
	d.out.Close()
	return nil
}

// newDuplex creates a connected pair of stream ends with independent
// fragmentation in the two directions.
func newDuplex(rng *rand.Rand) (*duplexEnd, *duplexEnd) {
	ab := newFragPipe(rng.Int63(), rng.Intn(fragStyles), nil)
	ba := newFragPipe(rng.Int63(), rng.Intn(fragStyles), nil)
	return &duplexEnd{in: ba, out: ab}, &duplexEnd{in: ab, out: ba}
}
