// Monitor group remote: local-versus-remote endpoint differential (C21),
// control-stream framing (C22), accepted configurations versus endpoint
// initialization (C37). C21/C22 are built with -race, C37 without; the source
// is the same.
package main

import (
	"verif/internal/vk"
)

func main() {
	vk.Main("remote", map[string]func(){
		"C21": c21,
		"C22": c22,
		"C37": c37,
	})
}
