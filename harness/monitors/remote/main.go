// Monitor group remote: local-versus-remote endpoint differential (C21),
// control-stream framing (C22), accepted configurations versus endpoint
// initialization (C37). C21/C22 are built with -race, C37 without; the source
// is the same.
package main

import (
	"os"
	"runtime/pprof"

	"verif/internal/vk"
)

func main() {
	// Development aid: VERIF_PROF=<file> writes a CPU profile (the profile is
	// only complete if the property function returns through stopProfile).
	if p := os.Getenv("VERIF_PROF"); p != "" {
		if f, err := os.Create(p); err == nil {
			pprof.StartCPUProfile(f)
		}
	}
	vk.Main("remote", map[string]func(){
		"C21": c21,
		"C22": c22,
		"C37": c37,
	})
}

// stopProfile flushes the development CPU profile, if any.
func stopProfile() { pprof.StopCPUProfile() }
