package main

import (
	"context"
	"errors"
	"fmt"
	"math/rand"
	"runtime"
	"sort"
	"strings"
	"sync"
	"sync/atomic"
	"time"

	"github.com/anishathalye/porcupine"

	"github.com/mutagen-io/mutagen/pkg/state"

	"verif/internal/vk"
)

// ---------------------------------------------------------------------------
// C30: state-change long-polls never miss an update.
//
// Many short concurrent histories against a real state.Tracker and
// state.TrackingLock, recorded at the client boundary with one logical clock
// (an atomic counter: the call tick is taken before invoking, the return tick
// after the call returned, so "A returned before B was called" implies
// retTick(A) < callTick(B)). Offline checks: monotone indices, a porcupine
// counter model following the documented contract of WaitForChange, the Unlock
// count, and bounded progress at quiescence (control-relative).
// ---------------------------------------------------------------------------

type c30step struct {
	Kind     string `json:"kind"`               // notify | lockunlock | read | wait | terminate | pause
	PrevKind string `json:"prev,omitempty"`     // zero | stale | current | future
	Cancel   string `json:"cancel,omitempty"`   // none (blocks until the coordinator cancels at quiescence) | timed | pre
	DelayUS  int    `json:"delay_us,omitempty"` // timed cancel / pause length / hold time of the lock
}

type c30script struct {
	Index    int         `json:"history"`
	Mutators [][]c30step `json:"mutators"`
	Waiters  [][]c30step `json:"waiters"`
	Procs    int         `json:"gomaxprocs"`
}

type c30op struct {
	Client   int    `json:"client"`
	Kind     string `json:"kind"` // notify | unlock | lock | wait | terminate
	Prev     uint64 `json:"prev"`
	PrevKind string `json:"prev_kind,omitempty"`
	Cancel   string `json:"cancel,omitempty"`
	Call     int64  `json:"call"`
	Ret      int64  `json:"ret"`
	Idx      uint64 `json:"idx"`
	Err      string `json:"err,omitempty"` // "" | canceled | terminated | other:<text>
	CancelAt int64  `json:"cancel_at,omitempty"`
}

func genC30(rng *rand.Rand, index int) c30script {
	g := 2 + rng.Intn(7) // 2..8 goroutines
	nm := 1 + rng.Intn(3)
	if nm > g-1 {
		nm = g - 1
	}
	s := c30script{Index: index}
	terminates := rng.Intn(4) == 0
	for m := 0; m < nm; m++ {
		n := 2 + rng.Intn(5)
		var steps []c30step
		for i := 0; i < n; i++ {
			x := rng.Intn(100)
			switch {
			case x < 34:
				steps = append(steps, c30step{Kind: "notify"})
			case x < 60:
				steps = append(steps, c30step{Kind: "lockunlock", DelayUS: rng.Intn(3) * rng.Intn(60)})
			case x < 68:
				steps = append(steps, c30step{Kind: "read", PrevKind: "zero"})
			case x < 82:
				c := "timed"
				if rng.Intn(3) == 0 {
					c = "pre"
				}
				steps = append(steps, c30step{Kind: "wait", PrevKind: []string{"stale", "current", "current", "future"}[rng.Intn(4)], Cancel: c, DelayUS: rng.Intn(400)})
			case x < 94:
				steps = append(steps, c30step{Kind: "pause", DelayUS: rng.Intn(3) * rng.Intn(150)})
			default:
				if terminates {
					steps = append(steps, c30step{Kind: "terminate"})
				} else {
					steps = append(steps, c30step{Kind: "notify"})
				}
			}
		}
		s.Mutators = append(s.Mutators, steps)
	}
	for w := 0; w < g-nm; w++ {
		n := 1 + rng.Intn(4)
		var steps []c30step
		for i := 0; i < n; i++ {
			x := rng.Intn(100)
			switch {
			case x < 80:
				pk := []string{"current", "current", "current", "current", "current", "stale", "stale", "future", "future", "zero"}[rng.Intn(10)]
				c := []string{"none", "none", "none", "none", "none", "none", "timed", "timed", "timed", "pre"}[rng.Intn(10)]
				steps = append(steps, c30step{Kind: "wait", PrevKind: pk, Cancel: c, DelayUS: rng.Intn(600)})
			case x < 90:
				steps = append(steps, c30step{Kind: "read", PrevKind: "zero"})
			default:
				steps = append(steps, c30step{Kind: "pause", DelayUS: rng.Intn(3) * rng.Intn(150)})
			}
		}
		s.Waiters = append(s.Waiters, steps)
	}
	return s
}

// c30waiter is the published status of one waiter goroutine, read by the
// coordinator at quiescence.
type c30waiter struct {
	mu       sync.Mutex
	inCall   bool
	blocking bool // in a Wait with cancel mode "none"
	prev     uint64
	callTick int64
	seq      int
	done     bool
	cancel   context.CancelFunc
	cancelAt *atomic.Int64
}

type c30hist struct {
	script  c30script
	tracker *state.Tracker
	lock    *state.TrackingLock
	clock   atomic.Int64
	mu      sync.Mutex
	ops     []c30op
	drain   atomic.Bool
}

func (h *c30hist) tick() int64 { return h.clock.Add(1) }

func (h *c30hist) record(op c30op) {
	h.mu.Lock()
	h.ops = append(h.ops, op)
	h.mu.Unlock()
}

func errKind(err error) string {
	switch {
	case err == nil:
		return ""
	case errors.Is(err, context.Canceled):
		return "canceled"
	case errors.Is(err, state.ErrTrackingTerminated):
		return "terminated"
	default:
		return "other:" + err.Error()
	}
}

func pauseUS(us int) {
	if us <= 0 {
		runtime.Gosched()
		return
	}
	time.Sleep(time.Duration(us) * time.Microsecond)
}

func pickPrev(rng *rand.Rand, kind string, last uint64) uint64 {
	switch kind {
	case "zero":
		return 0
	case "stale":
		if last <= 1 {
			return last + 1 + uint64(rng.Intn(3)) // nothing below 1 but the sentinel: use a future value
		}
		d := uint64(1 + rng.Intn(3))
		if d >= last {
			d = last - 1
		}
		return last - d
	case "future":
		return last + 1 + uint64(rng.Intn(3))
	default:
		return last
	}
}

// doWait performs one recorded WaitForChange. w is nil for mutators.
func (h *c30hist) doWait(client int, rng *rand.Rand, st c30step, last *uint64, w *c30waiter) {
	prev := pickPrev(rng, st.PrevKind, *last)
	ctx, cancel := context.WithCancel(context.Background())
	cancelAt := new(atomic.Int64)
	var timer *time.Timer
	switch st.Cancel {
	case "pre":
		cancelAt.Store(h.tick())
		cancel()
	case "timed":
		timer = time.AfterFunc(time.Duration(st.DelayUS)*time.Microsecond, func() {
			cancelAt.CompareAndSwap(0, h.tick())
			cancel()
		})
	}
	if w != nil {
		w.mu.Lock()
		if h.drain.Load() && st.Cancel == "none" {
			w.mu.Unlock()
			cancel()
			return
		}
		w.inCall, w.blocking, w.prev, w.callTick = true, st.Cancel == "none", prev, 0
		w.seq++
		w.cancel, w.cancelAt = cancel, cancelAt
		w.mu.Unlock()
	}
	op := c30op{Client: client, Kind: "wait", Prev: prev, PrevKind: st.PrevKind, Cancel: st.Cancel}
	op.Call = h.tick()
	if w != nil {
		w.mu.Lock()
		w.callTick = op.Call
		w.mu.Unlock()
	}
	idx, err := h.tracker.WaitForChange(ctx, prev)
	op.Ret = h.tick()
	if w != nil {
		w.mu.Lock()
		w.inCall, w.blocking = false, false
		w.seq++
		w.cancel = nil
		w.mu.Unlock()
	}
	if timer != nil {
		timer.Stop()
	}
	op.CancelAt = cancelAt.Load()
	cancel()
	op.Idx, op.Err = idx, errKind(err)
	h.record(op)
	if idx > *last {
		*last = idx
	}
}

func (h *c30hist) runSteps(client int, rng *rand.Rand, steps []c30step, w *c30waiter) {
	last := uint64(1) // documented initial index
	for _, st := range steps {
		if w != nil && h.drain.Load() {
			break
		}
		switch st.Kind {
		case "notify":
			op := c30op{Client: client, Kind: "notify", Call: h.tick()}
			h.tracker.NotifyOfChange()
			op.Ret = h.tick()
			h.record(op)
		case "lockunlock":
			op := c30op{Client: client, Kind: "lock", Call: h.tick()}
			h.lock.Lock()
			op.Ret = h.tick()
			h.record(op)
			if st.DelayUS > 0 {
				pauseUS(st.DelayUS)
			}
			op = c30op{Client: client, Kind: "unlock", Call: h.tick()}
			h.lock.Unlock()
			op.Ret = h.tick()
			h.record(op)
		case "read", "wait":
			h.doWait(client, rng, st, &last, w)
		case "terminate":
			op := c30op{Client: client, Kind: "terminate", Call: h.tick()}
			h.tracker.Terminate()
			op.Ret = h.tick()
			h.record(op)
		case "pause":
			pauseUS(st.DelayUS)
		}
	}
	if w != nil {
		w.mu.Lock()
		w.done = true
		w.mu.Unlock()
	}
}

// ---- the sequential specification (documented contract of tracker.go) -----

type c30state struct {
	idx  uint64
	term bool
}

type c30in struct {
	kind string
	prev uint64
}

type c30out struct {
	idx uint64
	err string
}

var c30model = porcupine.Model{
	Init: func() interface{} { return c30state{idx: 1} },
	Step: func(s, in, out interface{}) (bool, interface{}) {
		st, i, o := s.(c30state), in.(c30in), out.(c30out)
		switch i.kind {
		case "notify", "unlock":
			// NotifyOfChange advances the index by one unless tracking was terminated.
			if !st.term {
				st.idx++
			}
			return true, st
		case "terminate":
			st.term = true
			return true, st
		case "wait":
			switch o.err {
			case "":
				// "returns the new index at which the change was seen"; prev 0 = immediate read.
				return !st.term && o.idx == st.idx && (i.prev == 0 || o.idx != i.prev), st
			case "terminated":
				// "the current state index is returned along with ErrTrackingTerminated"
				return st.term && o.idx == st.idx, st
			case "canceled":
				// "the current state index is returned along with context.Canceled"; an immediate read never waits.
				return i.prev != 0 && o.idx == st.idx, st
			}
			return false, st
		}
		return false, st
	},
	Equal: func(a, b interface{}) bool { return a.(c30state) == b.(c30state) },
	DescribeOperation: func(in, out interface{}) string {
		return fmt.Sprintf("%+v -> %+v", in, out)
	},
}

type c30result struct {
	sig          string
	blocked      int
	blockedFresh int
	overlapped   bool
	hang         bool
}

var c30health *health

func runC30(r *vk.Run, sc c30script) (res c30result) {
	h := &c30hist{script: sc}
	h.tracker = state.NewTracker()
	h.lock = state.NewTrackingLock(h.tracker)
	desc := map[string]any{"script": sc}

	violate := func(kind, what string) {
		h.mu.Lock()
		ops := append([]c30op(nil), h.ops...)
		h.mu.Unlock()
		sort.Slice(ops, func(i, j int) bool { return ops[i].Call < ops[j].Call })
		r.Violation(map[string]string{"check": kind}, what, map[string]any{"script": sc, "history": ops})
	}
	bounded := func(ch <-chan struct{}, kind, what string) bool {
		switch c30health.waitDone(ch, hangBound) {
		case "ok":
			return true
		case "hang":
			violate(kind, what)
			res.hang = true
		default:
			r.Inconclusive("scheduler-unhealthy")
			res.hang = true
		}
		return false
	}

	start := make(chan struct{})
	var mwg, wwg sync.WaitGroup
	waiters := make([]*c30waiter, len(sc.Waiters))
	for i := range sc.Mutators {
		mwg.Add(1)
		go func(i int) {
			defer mwg.Done()
			rng := rand.New(rand.NewSource(int64(sc.Index)*131 + int64(i)))
			<-start
			r.Guard(desc, func() { h.runSteps(i, rng, sc.Mutators[i], nil) })
		}(i)
	}
	for i := range sc.Waiters {
		waiters[i] = &c30waiter{}
		wwg.Add(1)
		go func(i int) {
			defer wwg.Done()
			rng := rand.New(rand.NewSource(int64(sc.Index)*137 + 1000 + int64(i)))
			<-start
			r.Guard(desc, func() { h.runSteps(len(sc.Mutators)+i, rng, sc.Waiters[i], waiters[i]) })
		}(i)
	}
	close(start)

	// Phase 1: all mutators finish (every mutator call returns by itself).
	if !bounded(wgChan(&mwg), "call-did-not-return", "a NotifyOfChange/Lock/Unlock/Terminate/WaitForChange call of a mutator goroutine did not return") {
		return
	}

	// Quiescence: nobody changes the state any more. Read the final index.
	quiesceTick := h.tick()
	coord := len(sc.Mutators) + len(sc.Waiters)
	var finalIdx uint64
	var finalErr string
	{
		op := c30op{Client: coord, Kind: "wait", Prev: 0, PrevKind: "zero", Cancel: "none", Call: h.tick()}
		idx, err := h.tracker.WaitForChange(context.Background(), 0)
		op.Ret = h.tick()
		op.Idx, op.Err = idx, errKind(err)
		h.record(op)
		finalIdx, finalErr = idx, op.Err
	}

	// Phase 2 (check 4): every waiter goroutine either finishes its script or
	// settles in a blocking Wait whose prev equals the final index.
	settled := func() bool {
		for _, w := range waiters {
			w.mu.Lock()
			ok := w.done || (w.inCall && w.blocking && w.prev == finalIdx && finalErr == "")
			w.mu.Unlock()
			if !ok {
				return false
			}
		}
		return true
	}
	switch c30health.waitCond(settled, hangBound) {
	case "ok":
	case "hang":
		var stuck []string
		for i, w := range waiters {
			w.mu.Lock()
			if !w.done && w.inCall && !(w.prev == finalIdx && finalErr == "") {
				stuck = append(stuck, fmt.Sprintf("waiter %d: WaitForChange(prev=%d) still blocked, final index %d, terminated=%v", i, w.prev, finalIdx, finalErr != ""))
			}
			w.mu.Unlock()
		}
		violate("missed-update", "after all state changes finished, a waiter whose previous index differs from the final index (or a waiter on a terminated tracker) did not return: "+strings.Join(stuck, "; "))
		res.hang = true
		return
	default:
		r.Inconclusive("scheduler-unhealthy")
		res.hang = true
		return
	}
	// A Wait with prev == final index that was invoked after quiescence stays
	// blocked until cancelled. (A Wait invoked before the last change may
	// still be about to return an older index it legitimately saw; whether
	// its result is legal is decided by the model check below.)
	seqs := make([]int, len(waiters))
	fresh := make([]bool, len(waiters))
	for i, w := range waiters {
		w.mu.Lock()
		if !w.done {
			res.blocked++
			fresh[i] = w.callTick > quiesceTick
			if fresh[i] {
				res.blockedFresh++
			}
		}
		seqs[i] = w.seq
		w.mu.Unlock()
	}
	if res.blocked > 0 {
		time.Sleep(200 * time.Microsecond)
		for i, w := range waiters {
			w.mu.Lock()
			moved := fresh[i] && w.seq != seqs[i]
			w.mu.Unlock()
			if moved {
				violate("returned-without-change", fmt.Sprintf("waiter %d called WaitForChange(prev=%d) after the last state change and returned although the index stayed %d and nothing was cancelled", i, finalIdx, finalIdx))
			}
		}
	}
	// Cancel the blocked ones: cancellation must unblock them.
	h.drain.Store(true)
	for _, w := range waiters {
		w.mu.Lock()
		if w.inCall && w.cancel != nil {
			w.cancelAt.CompareAndSwap(0, h.tick())
			w.cancel()
		}
		w.mu.Unlock()
	}
	if !bounded(wgChan(&wwg), "cancel-did-not-unblock", "a WaitForChange call did not return after its context was cancelled") {
		return
	}

	// Phase 3: terminate (always, also as cleanup) and poll the terminated tracker.
	tdone := make(chan struct{})
	go func() {
		op := c30op{Client: coord, Kind: "terminate", Call: h.tick()}
		h.tracker.Terminate()
		op.Ret = h.tick()
		h.record(op)
		for _, prev := range []uint64{0, finalIdx, finalIdx + 1} {
			op := c30op{Client: coord, Kind: "wait", Prev: prev, PrevKind: "post-terminate", Cancel: "none", Call: h.tick()}
			idx, err := h.tracker.WaitForChange(context.Background(), prev)
			op.Ret = h.tick()
			op.Idx, op.Err = idx, errKind(err)
			h.record(op)
		}
		close(tdone)
	}()
	if !bounded(tdone, "call-did-not-return", "Terminate (or WaitForChange on a terminated tracker) did not return") {
		return
	}

	// ---- offline checks over the recorded history --------------------------
	ops := h.ops
	sort.Slice(ops, func(i, j int) bool { return ops[i].Call < ops[j].Call })

	// (1) returned indices never move backwards: per caller, and across
	// callers whenever one call returned before the other was invoked.
	var waits []c30op
	for _, op := range ops {
		if op.Kind == "wait" {
			waits = append(waits, op)
			if strings.HasPrefix(op.Err, "other:") {
				violate("unexpected-error", fmt.Sprintf("WaitForChange(prev=%d) returned an undocumented error %q", op.Prev, op.Err))
			}
			if op.Err == "canceled" && op.CancelAt == 0 {
				violate("canceled-without-cancel", fmt.Sprintf("WaitForChange(prev=%d) returned context.Canceled although its context was never cancelled", op.Prev))
			}
			if op.Err == "" && op.Prev != 0 && op.Idx == op.Prev {
				violate("returned-without-change", fmt.Sprintf("WaitForChange(prev=%d) returned (%d, nil): no change seen", op.Prev, op.Idx))
			}
			if op.Idx == 0 {
				violate("zero-index", fmt.Sprintf("WaitForChange(prev=%d) returned index 0", op.Prev))
			}
		}
	}
	for i := range waits {
		for j := range waits {
			if waits[i].Ret < waits[j].Call && waits[i].Idx > waits[j].Idx {
				kind := "index-decreased"
				violate(kind, fmt.Sprintf("client %d got index %d, afterwards client %d called WaitForChange(prev=%d) and got the smaller index %d",
					waits[i].Client, waits[i].Idx, waits[j].Client, waits[j].Prev, waits[j].Idx))
			}
		}
	}

	// (3) k Unlock/Notify calls that returned before any Terminate was
	// invoked advance the index by at least k; it never advances by more
	// than the number of calls made.
	firstTerm := int64(1 << 62)
	for _, op := range ops {
		if op.Kind == "terminate" && op.Call < firstTerm {
			firstTerm = op.Call
		}
	}
	var unlocksBefore, notifiesBefore, allChanges uint64
	for _, op := range ops {
		if op.Kind == "unlock" || op.Kind == "notify" {
			allChanges++
			if op.Ret < firstTerm {
				if op.Kind == "unlock" {
					unlocksBefore++
				} else {
					notifiesBefore++
				}
			}
		}
	}
	if finalIdx < 1+unlocksBefore+notifiesBefore {
		kind := "notify-not-counted"
		if unlocksBefore > 0 && finalIdx >= 1+notifiesBefore {
			kind = "unlock-not-counted"
		}
		violate(kind, fmt.Sprintf("%d Unlock and %d NotifyOfChange calls returned before termination but the final index is %d (initial 1)", unlocksBefore, notifiesBefore, finalIdx))
	}
	if finalIdx > 1+allChanges {
		violate("index-overshoot", fmt.Sprintf("final index %d after only %d Unlock/NotifyOfChange calls (initial 1)", finalIdx, allChanges))
	}

	// (2) linearizability against the counter model.
	var hist []porcupine.Operation
	for _, op := range ops {
		if op.Kind == "lock" {
			continue
		}
		call := op.Call
		if op.Kind == "wait" && op.Err == "canceled" && op.CancelAt > call {
			// The index returned with context.Canceled is read after the cancellation was issued.
			call = op.CancelAt
		}
		if call > op.Ret {
			call = op.Ret
		}
		hist = append(hist, porcupine.Operation{ClientId: op.Client, Input: c30in{op.Kind, op.Prev}, Call: call, Output: c30out{op.Idx, op.Err}, Return: op.Ret})
	}
	switch porcupine.CheckOperationsTimeout(c30model, hist, 20*time.Second) {
	case porcupine.Ok:
	case porcupine.Illegal:
		violate("not-linearizable", "the recorded history has no linearization under the documented contract of Tracker (counter model)")
	default:
		r.Inconclusive("checker-timeout")
	}

	// Signature: the set of (operation, outcome) classes seen, the number of
	// waiters blocked at quiescence, and whether operations really overlapped.
	classes := map[string]bool{}
	for _, op := range ops {
		c := op.Kind
		if op.Kind == "wait" {
			out := op.Err
			if out == "" {
				out = "index"
			}
			c = "wait/" + op.PrevKind + "/" + out
		}
		classes[c] = true
	}
	for i := range ops {
		for j := range ops {
			if i != j && ops[i].Kind == "wait" && ops[i].Prev != 0 && (ops[j].Kind == "notify" || ops[j].Kind == "unlock") &&
				ops[i].Call < ops[j].Ret && ops[j].Call < ops[i].Ret {
				res.overlapped = true
			}
		}
	}
	var cl []string
	for c := range classes {
		cl = append(cl, c)
	}
	sort.Strings(cl)
	b := res.blocked
	if b > 2 {
		b = 2
	}
	res.sig = fmt.Sprintf("%s|blocked=%d|overlap=%v", strings.Join(cl, ","), b, res.overlapped)
	r.Count("operations_recorded", int64(len(ops)))
	r.Count("waits_recorded", int64(len(waits)))
	return
}

func c30() {
	r := vk.Start("C30", "exploration")
	c30health = startHealth()
	n := r.Pick(20000, 600000)
	procsCycle := []int{16, 4, 2, 16}
	batch := (n + len(procsCycle) - 1) / len(procsCycle)
	defaultProcs := runtime.GOMAXPROCS(0)
	var hangs atomic.Int64
	var sampled atomic.Int64
	idx := 0
	for b := 0; b < len(procsCycle) && idx < n; b++ {
		procs := procsCycle[b]
		if procs > defaultProcs {
			procs = defaultProcs
		}
		runtime.GOMAXPROCS(procs)
		lo, hi := idx, idx+batch
		if hi > n {
			hi = n
		}
		idx = hi
		work := make(chan int, hi-lo)
		for i := lo; i < hi; i++ {
			work <- i
		}
		close(work)
		workers := 8
		var wg sync.WaitGroup
		for w := 0; w < workers; w++ {
			wg.Add(1)
			go func() {
				defer wg.Done()
				for i := range work {
					if hangs.Load() >= 2 {
						return // each hang costs the full bound; two witnesses are enough
					}
					sc := genC30(r.Rand(fmt.Sprintf("hist-%d", i)), i)
					sc.Procs = procs
					fmt.Printf("case %d\n", i) // the script is a pure function of (seed, index)
					res := runC30(r, sc)
					r.Eval(1)
					if res.hang {
						hangs.Add(1)
						continue
					}
					if res.sig != "" {
						r.Distinct(res.sig)
					}
					if res.blocked > 0 {
						r.Count("histories_with_waiters_blocked_at_quiescence", 1)
						r.Count("waiters_blocked_until_cancelled", int64(res.blocked))
						r.Count("waiters_blocked_in_calls_made_after_quiescence", int64(res.blockedFresh))
					}
					if res.overlapped {
						r.Count("histories_with_wait_overlapping_a_change", 1)
					}
					if res.overlapped && res.blocked > 0 && sampled.Add(1) <= 3 {
						r.Sample(sc)
					}
				}
			}()
		}
		wg.Wait()
	}
	runtime.GOMAXPROCS(defaultProcs)
	r.Note("heartbeat_max_gap_ms", c30health.maxGap.Load()/1e6)
	r.Assume("histories are recorded at the client boundary with a logical clock; the sequential specification is the documented contract of Tracker.WaitForChange/NotifyOfChange/Terminate (initial index 1; notifications after termination do not advance the index)")
	r.Assume("bounded progress replaces 'eventually': a blocked call counts as a violation only after 12 s with a healthy heartbeat (max gap < 1 s)")
	r.Finish("seeded random concurrent histories (2..8 goroutines, <= 40 model operations) mixing NotifyOfChange, TrackingLock.Lock/Unlock, WaitForChange with prev in {0, stale, current, future}, timed/pre/at-quiescence cancellation and Terminate, under GOMAXPROCS 16/4/2; a history is non-trivial if it completed all phases; distinct = distinct sets of (operation, prev kind, outcome) classes x waiters blocked at quiescence x whether a wait overlapped a change", 20)
}
