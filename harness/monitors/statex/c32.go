package main

import (
	"errors"
	"fmt"
	"math/rand"
	"runtime"
	"runtime/debug"
	"strings"
	"sync"
	"sync/atomic"
	"time"

	"github.com/mutagen-io/mutagen/pkg/prompting"

	"verif/internal/vk"
)

// ---------------------------------------------------------------------------
// C32: prompting is serialized, ends at unregistration, hides secrets.
// ---------------------------------------------------------------------------

// c32prompter journals every invocation: in-flight counter, entry ticks.
type c32prompter struct {
	clock    *atomic.Int64
	inflight atomic.Int32
	maxSeen  atomic.Int32
	holdRng  *rand.Rand // only touched inside the prompter (which must be serialized); guarded by mu anyway
	mu       sync.Mutex
	entries  []c32entry
	holdUS   int
}

type c32entry struct {
	Tick     int64  `json:"tick"`
	Text     string `json:"text"`
	Method   string `json:"method"`
	Inflight int32  `json:"inflight_on_entry"`
}

func (p *c32prompter) enter(method, text string) {
	n := p.inflight.Add(1)
	for {
		m := p.maxSeen.Load()
		if n <= m || p.maxSeen.CompareAndSwap(m, n) {
			break
		}
	}
	t := p.clock.Add(1)
	p.mu.Lock()
	p.entries = append(p.entries, c32entry{Tick: t, Text: text, Method: method, Inflight: n})
	hold := 0
	if p.holdUS > 0 {
		hold = p.holdRng.Intn(p.holdUS + 1)
	}
	p.mu.Unlock()
	// Stay inside the prompter for a moment so that overlap, if possible, happens.
	switch {
	case hold == 0:
		runtime.Gosched()
	case hold < 20:
		for i := 0; i < hold; i++ {
			runtime.Gosched()
		}
	default:
		time.Sleep(time.Duration(hold) * time.Microsecond)
	}
	p.inflight.Add(-1)
}

func (p *c32prompter) Message(m string) error {
	p.enter("Message", m)
	if strings.HasSuffix(m, "!fail") {
		return errors.New("scripted prompter failure")
	}
	return nil
}

func (p *c32prompter) Prompt(m string) (string, error) {
	p.enter("Prompt", m)
	if strings.HasSuffix(m, "!fail") {
		return "", errors.New("scripted prompter failure")
	}
	return "answer to " + m, nil
}

type c32round struct {
	Index        int  `json:"round"`
	Callers      int  `json:"callers"`
	CallsEach    int  `json:"calls_each"`
	LateCallers  int  `json:"late_callers"`
	UnregAfter   int  `json:"unregister_after_entries"` // unregister once this many prompter entries were journaled
	UnregDelayUS int  `json:"unregister_extra_delay_us"`
	HoldUS       int  `json:"prompter_hold_us"`
	OwnID        bool `json:"own_identifier"`
}

type c32call struct {
	Caller int    `json:"caller"`
	Method string `json:"method"`
	Text   string `json:"text"`
	Call   int64  `json:"call"`
	Ret    int64  `json:"ret"`
	Err    string `json:"err,omitempty"`
	Late   bool   `json:"late,omitempty"`
}

var c32health *health

func runC32Round(r *vk.Run, rd c32round) (sig string, hang bool) {
	var clock atomic.Int64
	p := &c32prompter{clock: &clock, holdRng: rand.New(rand.NewSource(int64(rd.Index))), holdUS: rd.HoldUS}
	var id string
	if rd.OwnID {
		id = fmt.Sprintf("verif-prompter-%d-%d", rd.Index, time.Now().UnixNano())
		if err := prompting.RegisterPrompterWithIdentifier(id, p); err != nil {
			r.Violation(map[string]string{"check": "register-failed"}, "RegisterPrompterWithIdentifier failed: "+err.Error(), rd)
			return "", false
		}
	} else {
		var err error
		if id, err = prompting.RegisterPrompter(p); err != nil {
			r.Violation(map[string]string{"check": "register-failed"}, "RegisterPrompter failed: "+err.Error(), rd)
			return "", false
		}
	}

	var mu sync.Mutex
	var calls []c32call
	start := make(chan struct{})
	unregistered := make(chan struct{})
	var uCall, uRet atomic.Int64
	var wg sync.WaitGroup
	doCall := func(caller, k int, late bool) {
		text := fmt.Sprintf("r%d-c%d-k%d", rd.Index, caller, k)
		if (caller+k)%7 == 3 {
			text += "!fail"
		}
		c := c32call{Caller: caller, Text: text, Late: late}
		defer c32Recover(r, rd)
		var err error
		if (caller+k)%2 == 0 {
			c.Method = "Message"
			c.Call = clock.Add(1)
			err = prompting.Message(id, text)
			c.Ret = clock.Add(1)
		} else {
			c.Method = "Prompt"
			c.Call = clock.Add(1)
			var resp string
			resp, err = prompting.Prompt(id, text)
			c.Ret = clock.Add(1)
			if err == nil && resp != "answer to "+text {
				err = fmt.Errorf("WRONG-RESPONSE %q", resp)
			}
		}
		if err != nil {
			c.Err = err.Error()
		}
		mu.Lock()
		calls = append(calls, c)
		mu.Unlock()
	}
	for c := 0; c < rd.Callers; c++ {
		wg.Add(1)
		go func(c int) {
			defer wg.Done()
			<-start
			for k := 0; k < rd.CallsEach; k++ {
				doCall(c, k, false)
			}
		}(c)
	}
	for c := 0; c < rd.LateCallers; c++ {
		wg.Add(1)
		go func(c int) {
			defer wg.Done()
			<-unregistered // closed after UnregisterPrompter returned
			doCall(rd.Callers+c, 0, true)
		}(c)
	}
	wg.Add(1)
	go func() {
		defer wg.Done()
		defer c32Recover(r, rd)
		<-start
		for {
			p.mu.Lock()
			n := len(p.entries)
			p.mu.Unlock()
			if n >= rd.UnregAfter {
				break
			}
			runtime.Gosched()
		}
		if rd.UnregDelayUS > 0 {
			time.Sleep(time.Duration(rd.UnregDelayUS) * time.Microsecond)
		}
		uCall.Store(clock.Add(1))
		prompting.UnregisterPrompter(id)
		uRet.Store(clock.Add(1))
		close(unregistered)
	}()
	close(start)
	switch c32health.waitDone(wgChan(&wg), hangBound) {
	case "ok":
	case "hang":
		r.Violation(map[string]string{"check": "call-did-not-return"}, "a Message/Prompt/UnregisterPrompter call did not return", rd)
		return "", true
	default:
		r.Inconclusive("scheduler-unhealthy")
		return "", true
	}

	witness := func() any {
		return map[string]any{"round": rd, "unregister_call": uCall.Load(), "unregister_return": uRet.Load(), "prompter_entries": p.entries, "calls": calls}
	}
	if m := p.maxSeen.Load(); m > 1 {
		r.Violation(map[string]string{"check": "concurrent-invocation"}, fmt.Sprintf("the registered prompter was inside Message/Prompt %d times at once", m), witness())
	}
	ur := uRet.Load()
	after := 0
	for _, e := range p.entries {
		if e.Tick > ur {
			after++
		}
	}
	if after > 0 {
		r.Violation(map[string]string{"check": "invoked-after-unregister"}, fmt.Sprintf("%d prompter invocations started after UnregisterPrompter had returned", after), witness())
	}
	entered := map[string]int{}
	for _, e := range p.entries {
		entered[e.Text]++
	}
	var okBefore, errRace, lateErr int
	for _, c := range calls {
		if c.Call > ur {
			// The call started after unregistration had returned: it must fail.
			if c.Err == "" {
				r.Violation(map[string]string{"check": "late-caller-succeeded"}, fmt.Sprintf("%s(%q) was called after UnregisterPrompter had returned and reported success", c.Method, c.Text), witness())
			}
			lateErr++
			continue
		}
		if c.Err == "" {
			okBefore++
		} else if !strings.Contains(c.Err, "scripted prompter failure") {
			errRace++
		}
		if strings.HasPrefix(c.Err, "WRONG-RESPONSE") {
			r.Count("wrong_responses", 1)
		}
	}
	r.Count("prompter_entries", int64(len(p.entries)))
	r.Count("calls", int64(len(calls)))
	r.Count("calls_after_unregister_returned", int64(lateErr))
	r.Count("calls_cancelled_by_unregister", int64(errRace))
	b := func(n, d int) int {
		if d == 0 {
			return 0
		}
		return n * 4 / (d + 1)
	}
	total := rd.Callers * rd.CallsEach
	sig = fmt.Sprintf("callers=%d|served=%d/4|cancelled=%d/4|late=%v|own=%v|hold=%d", rd.Callers/16, b(okBefore, total), b(errRace, total), rd.LateCallers > 0, rd.OwnID, minInt(rd.HoldUS, 1))
	return sig, false
}

// ---- response mode ---------------------------------------------------------

// c32EchoSuffixes is the specification, frozen here: the four OpenSSH yes/no
// host-key confirmation prompts whose responses are echoed.
var c32EchoSuffixes = []string{
	"(yes/no)? ",
	"(yes/no): ",
	"(yes/no/[fingerprint])? ",
	"Please type 'yes', 'no' or the fingerprint: ",
}

func c32ExpectEcho(prompt string) bool {
	for _, s := range c32EchoSuffixes {
		if len(prompt) >= len(s) && prompt[len(prompt)-len(s):] == s {
			return true
		}
	}
	return false
}

func swapCase(b byte) byte {
	switch {
	case b >= 'a' && b <= 'z':
		return b - 32
	case b >= 'A' && b <= 'Z':
		return b + 32
	}
	return b
}

func c32ResponseModes(r *vk.Run) {
	rng := r.Rand("prompts")
	prefixes := []string{"", "Are you sure you want to continue connecting ", "The authenticity of host 'h (1.2.3.4)' can't be established.\nED25519 key fingerprint is SHA256:x.\n", "user@host's password: ", "Enter passphrase for key '/k': ", "(yes/no)? ", "Ünïcödé ", " "}
	check := func(category string, si int, prompt string) {
		mode := prompting.VerifDetermineResponseMode(prompt)
		want := c32ExpectEcho(prompt)
		got := mode == prompting.ResponseModeEcho
		r.Eval(1)
		r.Distinct(fmt.Sprintf("mode|%s|%d|%v", category, si, want))
		if want {
			r.Count("prompts_expected_echo", 1)
		} else {
			r.Count("prompts_expected_hidden", 1)
		}
		if got != want {
			what := fmt.Sprintf("prompt %q: response would be echoed although it does not end with a known yes/no suffix", prompt)
			kind := "echo-for-secret"
			if want {
				what = fmt.Sprintf("prompt %q ends with a known yes/no suffix but its response mode is %d, not echo", prompt, mode)
				kind = "hidden-for-yes-no"
			}
			r.Violation(map[string]string{"check": kind, "category": category}, what, map[string]any{"prompt": prompt, "mode": int(mode), "category": category})
		}
		if mode != prompting.ResponseModeEcho && mode != prompting.ResponseModeSecret && mode != prompting.ResponseModeMasked {
			r.Violation(map[string]string{"check": "unknown-mode"}, fmt.Sprintf("prompt %q: undefined response mode %d", prompt, mode), map[string]any{"prompt": prompt})
		}
	}
	// Systematic part: every suffix, every prefix, every single-character edit.
	for si, s := range c32EchoSuffixes {
		for _, pre := range prefixes {
			check("exact", si, pre+s)
			check("missing-trailing-space", si, pre+strings.TrimSuffix(s, " "))
			check("suffix-in-the-middle", si, pre+s+"x")
			check("suffix-in-the-middle", si, pre+s+"\n")
			check("suffix-in-the-middle", si, s+pre+"password: ")
			check("double-space", si, pre+s+" ")
			check("upper", si, pre+strings.ToUpper(s))
			for i := 0; i < len(s); i++ {
				b := []byte(s)
				check("delete-char", si, pre+string(append(b[:i:i], b[i+1:]...)))
				if c := swapCase(s[i]); c != s[i] {
					b2 := []byte(s)
					b2[i] = c
					check("case-change", si, pre+string(b2))
				}
				b3 := []byte(s)
				b3[i] ^= 1
				check("substitute-char", si, pre+string(b3))
				check("insert-char", si, pre+s[:i]+"_"+s[i:])
			}
		}
	}
	// Recombinations of the parts of the documented suffixes.
	c32Recombined(r, check)
	// Random part.
	alphabet := "abcyesno/()?:[] fingerprtPlTy',\n"
	n := r.Pick(20000, 2000000)
	for i := 0; i < n; i++ {
		var sb strings.Builder
		for k := rng.Intn(30); k > 0; k-- {
			sb.WriteByte(alphabet[rng.Intn(len(alphabet))])
		}
		si := rng.Intn(len(c32EchoSuffixes))
		s := c32EchoSuffixes[si]
		cat := "random"
		switch rng.Intn(6) {
		case 0:
			cat = "random+suffix"
			sb.WriteString(s)
		case 1:
			cat = "random+suffix+tail"
			sb.WriteString(s)
			for k := 1 + rng.Intn(3); k > 0; k-- {
				sb.WriteByte(alphabet[rng.Intn(len(alphabet))])
			}
		case 2:
			cat = "random+truncated-suffix"
			sb.WriteString(s[:rng.Intn(len(s))])
		case 3:
			cat = "random+suffix-tail-only"
			sb.WriteString(s[1+rng.Intn(len(s)-1):])
		}
		check(cat, si, sb.String())
	}
}

func c32() {
	r := vk.Start("C32", "exploration")
	c32health = startHealth()
	c32ResponseModes(r)

	n := r.Pick(1200, 30000)
	rng := r.Rand("rounds")
	rounds := make([]c32round, n)
	for i := range rounds {
		callers := 16 + rng.Intn(49)
		each := 1 + rng.Intn(3)
		rd := c32round{Index: i, Callers: callers, CallsEach: each, LateCallers: rng.Intn(4), OwnID: rng.Intn(3) == 0}
		rd.UnregAfter = rng.Intn(callers*each + 1)
		if rng.Intn(4) == 0 {
			rd.UnregAfter = 0
		}
		if rng.Intn(3) == 0 {
			rd.UnregDelayUS = rng.Intn(300)
		}
		rd.HoldUS = []int{0, 0, 5, 15, 60, 200}[rng.Intn(6)]
		rounds[i] = rd
	}
	work := make(chan c32round, n)
	for _, rd := range rounds {
		work <- rd
	}
	close(work)
	var wg sync.WaitGroup
	var hangs, sampled atomic.Int64
	for w := 0; w < 6; w++ { // several prompters are registered at the same time
		wg.Add(1)
		go func() {
			defer wg.Done()
			for rd := range work {
				if hangs.Load() >= 2 {
					return
				}
				fmt.Printf("round %s\n", vk.JSON(rd))
				var sig string
				var hang bool
				r.Guard(rd, func() { sig, hang = runC32Round(r, rd) })
				r.Eval(1)
				r.Count("registry_rounds", 1)
				if hang {
					hangs.Add(1)
					continue
				}
				if sig != "" {
					r.Distinct(sig)
				}
				if sampled.Add(1) <= 3 {
					r.Sample(rd)
				}
			}
		}()
	}
	wg.Wait()
	if hangs.Load() < 2 {
		c32Specials(r)
	}
	r.Note("echo_suffixes_frozen", c32EchoSuffixes)
	r.Assume("'without echo' is read as: the response mode is not ResponseModeEcho (secret or masked); the four OpenSSH yes/no suffixes are frozen in the monitor as the specification")
	r.Assume("an invocation 'after unregistration' is a prompter entry whose tick (taken inside the prompter) is later than the tick taken after UnregisterPrompter returned; one logical clock")
	r.Finish("(a) response mode for every single-character edit, case change, missing trailing space and mid-string placement of each of the four echo suffixes under several prefixes, every recombination of suffix bodies/sentences with endings ('? ', ': ', '?', ':', ' ', '; ' ...), plus seeded random prompts; (b) rounds of 16..64 goroutines calling prompting.Message/Prompt for one registered journaling prompter while another goroutine unregisters it after a random number of served calls, with late callers starting after unregistration returned; (c) special rounds: the prompter's first 1..3 invocations fail and 4..31 concurrent calls follow; one invocation is held inside the prompter by the harness, 1..24 calls queue behind it and the prompter is unregistered meanwhile; distinct = response-mode category x suffix x expected mode, and round shapes (caller bucket, share served, share cancelled, late callers, identifier kind, hold)", 30)
}

// c32Recover turns a panic inside a registry call (for instance a send on a
// closed holder) into a violation instead of losing the whole run.
func c32Recover(r *vk.Run, round any) {
	if p := recover(); p != nil {
		r.Violation(map[string]string{"check": "panic-in-registry-call"}, fmt.Sprintf("a Message/Prompt/UnregisterPrompter call panicked: %v", p), map[string]any{"round": round, "stack": string(debug.Stack())})
	}
}
