package main

import (
	"fmt"
	"math"
	"math/rand"
	"sort"
	"sync"
	"sync/atomic"
	"time"

	"github.com/mutagen-io/mutagen/pkg/state"

	"verif/internal/vk"
)

// ---------------------------------------------------------------------------
// C31: coalesced signals are never lost.
//
// For each Strobe the journal holds the call time s_i (taken before invoking)
// and the return time r_i (taken after the call returned), on the monotonic
// clock that Go timers use. Facts used (no scheduling assumption):
//   * the run loop receives strobe i somewhere in [s_i, r_i] (unbuffered channel);
//   * the timer armed for strobe i never fires before s_i + window;
//   * a timer expiry turns into a signal only if the run loop takes it before it
//     receives strobe i+1 (which stops and drains the timer), i.e. before r_{i+1}.
// Hence with one sequential strober
//   signals generated <= [n>0] + #{ i : r_{i+1} - s_i >= window }           (upper bound)
// and after the last strobe (not terminated) a signal must be received at a
// time >= s_n + window (no loss; bounded progress, control-relative).
// With several concurrent strobers the order of arrival is unknown, so only
// "signals <= strobes" and no-loss relative to the latest call time are used.
// ---------------------------------------------------------------------------

type c31case struct {
	Index     int       `json:"case"`
	WindowUS  int       `json:"window_us"`
	Style     string    `json:"style"`    // dense | around | mixed | sparse
	Consumer  string    `json:"consumer"` // active | lazy | never
	Gaps      []float64 `json:"gaps_in_windows"`
	Strobers  int       `json:"strobers"`
	TermAfter int       `json:"terminate_after_strobe"` // -1: never terminated by the script
	TermDelay float64   `json:"terminate_delay_in_windows"`
	LazyDelay float64   `json:"lazy_delay_in_windows"`
}

func genC31(rng *rand.Rand, index int, thorough bool) c31case {
	c := c31case{Index: index, TermAfter: -1, Strobers: 1}
	// windows 1..50 ms, log-uniform; quick keeps the long windows rarer.
	maxw := 50.0
	w := math.Exp(rng.Float64() * math.Log(maxw))
	if !thorough && w > 20 && rng.Intn(2) == 0 {
		w = 1 + rng.Float64()*10
	}
	c.WindowUS = int(w * 1000)
	c.Style = []string{"dense", "around", "mixed", "mixed", "sparse"}[rng.Intn(5)]
	c.Consumer = []string{"active", "active", "lazy", "never"}[rng.Intn(4)]
	n := 1 + rng.Intn(24)
	if c.WindowUS > 20000 && n > 10 {
		n = 1 + rng.Intn(10)
	}
	for i := 0; i < n; i++ {
		var g float64
		switch c.Style {
		case "dense":
			g = 0.2 + rng.Float64()*0.6
		case "around":
			g = 0.8 + rng.Float64()*0.4
		case "sparse":
			g = 1.2 + rng.Float64()*1.8
		default:
			g = 0.2 + rng.Float64()*2.8
		}
		if i == 0 {
			g = rng.Float64() * 0.5
		}
		c.Gaps = append(c.Gaps, math.Round(g*100)/100)
	}
	if rng.Intn(6) == 0 {
		c.Strobers = 2 + rng.Intn(3)
	}
	if rng.Intn(3) == 0 {
		c.TermAfter = rng.Intn(n)
		c.TermDelay = math.Round(rng.Float64()*200) / 100
	}
	c.LazyDelay = math.Round(rng.Float64()*400) / 100
	return c
}

type c31strobe struct {
	S int64 `json:"s_ns"`
	R int64 `json:"r_ns"`
}

type c31journal struct {
	Strobes   []c31strobe `json:"strobes"`
	Receipts  []int64     `json:"receipt_ns"`
	Drained   int         `json:"drained_after_terminate"`
	TermCall  int64       `json:"terminate_call_ns,omitempty"`
	TermRet   int64       `json:"terminate_return_ns,omitempty"`
	Bound     int         `json:"upper_bound"`
	Generated int         `json:"signals_observed"`
}

var c31health *health

func runC31(r *vk.Run, c c31case) (sig string, hang bool) {
	window := time.Duration(c.WindowUS) * time.Microsecond
	base := time.Now()
	now := func() int64 { return int64(time.Since(base)) + 1 }
	co := state.NewCoalescer(window)
	var j c31journal
	var mu sync.Mutex

	violate := func(kind, what string) {
		mu.Lock()
		jj := j
		jj.Strobes = append([]c31strobe(nil), j.Strobes...)
		jj.Receipts = append([]int64(nil), j.Receipts...)
		mu.Unlock()
		r.Violation(map[string]string{"check": kind}, what, map[string]any{"case": c, "journal": jj})
	}

	// Consumer: opens its gate according to the mode, then journals receipts.
	gate := make(chan struct{})
	stop := make(chan struct{})
	consumerDone := make(chan struct{})
	go func() {
		defer close(consumerDone)
		select {
		case <-gate:
		case <-stop:
			return
		}
		for {
			select {
			case <-co.Signals():
				t := now()
				mu.Lock()
				j.Receipts = append(j.Receipts, t)
				mu.Unlock()
			case <-stop:
				return
			}
		}
	}()
	var gateOnce sync.Once
	openGate := func() { gateOnce.Do(func() { close(gate) }) }
	if c.Consumer == "active" {
		openGate()
	}

	// Strobers. With one strober the gaps are followed in order; with several
	// the gap list is dealt round-robin.
	var termWG sync.WaitGroup
	var termCall, termRet atomic.Int64
	terminate := func() {
		termCall.CompareAndSwap(0, now())
		co.Terminate()
		termRet.CompareAndSwap(0, now())
	}
	var swg sync.WaitGroup
	var strobeCount atomic.Int64
	for s := 0; s < c.Strobers; s++ {
		swg.Add(1)
		go func(s int) {
			defer swg.Done()
			for i := s; i < len(c.Gaps); i += c.Strobers {
				time.Sleep(time.Duration(c.Gaps[i] * float64(window)))
				st := c31strobe{S: now()}
				co.Strobe()
				st.R = now()
				mu.Lock()
				j.Strobes = append(j.Strobes, st)
				mu.Unlock()
				if int(strobeCount.Add(1))-1 == c.TermAfter {
					termWG.Add(1)
					go func() {
						defer termWG.Done()
						time.Sleep(time.Duration(c.TermDelay * float64(window)))
						terminate()
					}()
				}
			}
		}(s)
	}
	r.Count("strobes_planned", int64(len(c.Gaps)))
	switch c31health.waitDone(wgChan(&swg), hangBound+time.Duration(len(c.Gaps))*4*window) {
	case "ok":
	case "hang":
		violate("strobe-blocked", "a Strobe call did not return (terminated: "+fmt.Sprint(termCall.Load() != 0)+")")
		return "", true
	default:
		r.Inconclusive("scheduler-unhealthy")
		return "", true
	}
	switch c31health.waitDone(wgChan(&termWG), hangBound) {
	case "ok":
	case "hang":
		violate("terminate-blocked", "Terminate did not return")
		return "", true
	default:
		r.Inconclusive("scheduler-unhealthy")
		return "", true
	}

	mu.Lock()
	sort.Slice(j.Strobes, func(a, b int) bool { return j.Strobes[a].S < j.Strobes[b].S })
	n := len(j.Strobes)
	lastS, lastR := j.Strobes[n-1].S, int64(0)
	for _, st := range j.Strobes {
		if st.R > lastR {
			lastR = st.R
		}
	}
	mu.Unlock()
	terminated := termCall.Load() != 0

	if !terminated {
		// No loss: a signal must arrive at a time >= s_n + window. The control
		// timer (same window) runs beside the wait.
		var fires atomic.Int64
		ctlStop := make(chan struct{})
		go func() {
			t := time.NewTimer(window)
			defer t.Stop()
			for {
				select {
				case <-t.C:
					fires.Add(1)
					t.Reset(window)
				case <-ctlStop:
					return
				}
			}
		}()
		need := lastS + int64(window)
		var cond func() bool
		if c.Consumer == "never" {
			// Nobody reads: the signal must show up in the single-slot buffer.
			cond = func() bool { return len(co.Signals()) >= 1 && now() >= need }
		} else {
			if c.Consumer == "lazy" {
				time.Sleep(time.Duration(c.LazyDelay * float64(window)))
			}
			openGate()
			cond = func() bool {
				mu.Lock()
				defer mu.Unlock()
				return len(j.Receipts) > 0 && j.Receipts[len(j.Receipts)-1] >= need
			}
		}
		since := c31health.now()
		verdict := "ok"
		for {
			res := c31health.waitCond(cond, hangBound)
			if res == "ok" {
				break
			}
			if res == "hang" && fires.Load() >= 50 && c31health.healthySince(since) {
				verdict = "lost"
				break
			}
			if res == "unhealthy" {
				verdict = "unhealthy"
				break
			}
		}
		close(ctlStop)
		if verdict == "lost" {
			violate("signal-lost", fmt.Sprintf("no signal was delivered after the last strobe although the coalescer was not terminated (window %v, a control timer with the same window fired %d times, heartbeat healthy, consumer %s)", window, fires.Load(), c.Consumer))
			close(stop)
			go co.Terminate()
			return "", true
		}
		if verdict == "unhealthy" {
			r.Inconclusive("scheduler-unhealthy")
			close(stop)
			go co.Terminate()
			return "", true
		}
		r.Count("no_loss_checks", 1)
		// Give excess signals (if any) a chance to show up before counting.
		time.Sleep(2*window + 200*time.Microsecond)
		terminate()
	} else {
		// Terminated by the script: no signal is required. Let the consumer (if
		// any) collect what was generated, then count.
		if c.Consumer != "never" {
			openGate()
			time.Sleep(window/2 + 200*time.Microsecond)
		}
		r.Count("terminated_cases", 1)
	}
	close(stop)
	<-consumerDone
	// After Terminate returned the run loop has exited: what is left is buffered.
	drained := 0
	for {
		select {
		case <-co.Signals():
			drained++
			continue
		default:
		}
		break
	}
	mu.Lock()
	j.Drained = drained
	j.TermCall, j.TermRet = termCall.Load(), termRet.Load()
	total := len(j.Receipts) + drained
	j.Generated = total
	// Strobes called after Terminate returned cannot reach the run loop.
	var eff []c31strobe
	for _, st := range j.Strobes {
		if st.S < j.TermRet {
			eff = append(eff, st)
		}
	}
	bound := 0
	if len(eff) > 0 {
		bound = 1
	}
	largeGaps := 0
	if c.Strobers == 1 {
		for i := 0; i+1 < len(eff); i++ {
			if eff[i+1].R-eff[i].S >= int64(window) {
				bound++
				largeGaps++
			}
		}
	} else {
		bound = len(eff)
	}
	j.Bound = bound
	receipts := len(j.Receipts)
	mu.Unlock()
	_ = lastR

	if total > bound {
		violate("excess-signals", fmt.Sprintf("%d signals observed but at most %d are possible: %d strobes reached the coalescer, %d consecutive pairs were at least one window (%v) apart", total, bound, len(eff), largeGaps, window))
	}
	if drained > 1 {
		violate("more-than-one-buffered", fmt.Sprintf("%d signals were buffered", drained))
	}
	if c.Consumer == "never" && receipts == 0 && !terminated && drained != 1 {
		violate("signal-lost", fmt.Sprintf("a signal was seen in the buffer but %d were drained after termination", drained))
	}
	r.Count("strobes_recorded", int64(n))
	r.Count("signals_observed", int64(total))
	if c.Strobers == 1 && total < bound {
		r.Count("cases_with_fewer_signals_than_bound", 1)
	}
	wb := 0
	switch {
	case c.WindowUS >= 20000:
		wb = 3
	case c.WindowUS >= 5000:
		wb = 2
	case c.WindowUS >= 2000:
		wb = 1
	}
	tb := total
	if tb > 4 {
		tb = 4
	}
	sig = fmt.Sprintf("w%d|%s|%s|strobers=%d|term=%v|signals=%d|large=%d", wb, c.Style, c.Consumer, minInt(c.Strobers, 2), terminated, tb, minInt(largeGaps, 3))
	return sig, false
}

func minInt(a, b int) int {
	if a < b {
		return a
	}
	return b
}

func c31() {
	r := vk.Start("C31", "exploration")
	c31health = startHealth()
	n := r.Pick(2000, 40000)
	par := 24
	work := make(chan int, n)
	for i := 0; i < n; i++ {
		work <- i
	}
	close(work)
	var hangs, sampled atomic.Int64
	var wg sync.WaitGroup
	for w := 0; w < par; w++ {
		wg.Add(1)
		go func() {
			defer wg.Done()
			for i := range work {
				if hangs.Load() >= 2 {
					return
				}
				c := genC31(r.Rand(fmt.Sprintf("case-%d", i)), i, !r.Quick())
				fmt.Printf("case %s\n", vk.JSON(c))
				var sig string
				var hang bool
				r.Guard(c, func() { sig, hang = runC31(r, c) })
				r.Eval(1)
				if hang {
					hangs.Add(1)
					continue
				}
				if sig != "" {
					r.Distinct(sig)
				}
				if c.TermAfter >= 0 && c.Consumer != "never" && len(c.Gaps) > 3 && sampled.Add(1) <= 3 {
					r.Sample(c)
				}
			}
		}()
	}
	wg.Wait()
	r.Note("heartbeat_max_gap_ms", c31health.maxGap.Load()/1e6)
	r.Assume("Go timers never fire early; a send on the unbuffered strobe channel has completed only after the run loop received it; time.Since and the runtime timers use the same monotonic clock")
	r.Assume("'eventually delivered' is restated as bounded progress: a missing signal is a violation only after >= 12 s during which a control timer with the same window fired >= 50 times and the heartbeat never paused >= 1 s")
	r.Finish("seeded strobe bursts (1..24 strobes, gaps 0.2x..3x the window, windows 1..50 ms, 1..4 strobers) against a real Coalescer with an active, late or absent consumer and Terminate at random points; non-trivial = completed case; distinct = window bucket x gap style x consumer x strobers x terminated x signals observed x number of gaps >= window", 20)
}
