package main

import (
	"errors"
	"fmt"
	"math/rand"
	"runtime"
	"sync"
	"sync/atomic"
	"time"

	"github.com/mutagen-io/mutagen/pkg/prompting"

	"verif/internal/vk"
)

// ---------------------------------------------------------------------------
// C32, additional workloads:
//  (1) prompts recombined from the parts of the four echo suffixes;
//  (2) a prompter whose first invocation(s) fail, followed by concurrent calls;
//  (3) unregistration while one invocation is held in flight by the harness
//      and others are queued behind it.
// ---------------------------------------------------------------------------

// c32Recombined feeds every (body, ending) recombination of the documented
// suffixes. Exactly the four documented strings are echo; the oracle is the
// frozen list (c32ExpectEcho), not a pattern.
func c32Recombined(r *vk.Run, check func(category string, si int, prompt string)) {
	bodies := []string{"(yes/no)", "(yes/no/[fingerprint])", "(yes/no/fingerprint)", "(yes/no/[fingerprint]/no)", "(yes)", "(no/yes)", "(yes/no/)", "(yes/no/[])", "[yes/no]", "yes/no", "(yes/no", "yes/no)"}
	endings := []string{"? ", ": ", "?", ":", " ", "; ", ". ", "", "?  ", ":  ", "?: ", ":? ", "?\t", ":\n", "? "}
	prefixes := []string{"", "Are you sure you want to continue connecting ", "x", "\n", "(yes/no)? ", "Please type 'yes', 'no' or the fingerprint: "}
	for bi, b := range bodies {
		for _, e := range endings {
			for _, pre := range prefixes {
				check("recombined-body-ending", bi%4, pre+b+e)
			}
		}
	}
	sentences := []string{"Please type 'yes', 'no' or the fingerprint", "Please type 'yes' or 'no'", "Please type 'yes', 'no' or the fingerprint (yes/no)", "please type 'yes', 'no' or the fingerprint", "Please type \"yes\", \"no\" or the fingerprint", "type 'yes', 'no' or the fingerprint", "Please type 'yes', 'no' or the fingerprint:"}
	for si, s := range sentences {
		for _, e := range endings {
			for _, pre := range prefixes {
				check("recombined-sentence-ending", si%4, pre+s+e)
			}
		}
	}
	// Two documented suffixes glued together, in both orders, and a body of
	// one with the sentence of the other.
	for i, a := range c32EchoSuffixes {
		for _, b := range c32EchoSuffixes {
			check("two-suffixes", i, a+b)
			check("two-suffixes", i, a[:len(a)-1]+b)
			check("two-suffixes", i, a+b[:len(b)-1])
		}
	}
}

// c32gated is a journaling prompter whose first `failFirst` invocations fail
// and whose invocation number `holdAt` (1-based; 0 = none) stays inside the
// prompter until the harness opens the gate.
type c32gated struct {
	c32prompter
	failFirst int32
	holdAt    int32
	gate      chan struct{}
	seq       atomic.Int32
	exits     atomic.Int32
	held      atomic.Bool
}

func (p *c32gated) invoke(method, text string) error {
	n := p.seq.Add(1)
	if n == p.holdAt {
		// enter() is split here so that the in-flight counter covers the hold.
		k := p.inflight.Add(1)
		for {
			m := p.maxSeen.Load()
			if k <= m || p.maxSeen.CompareAndSwap(m, k) {
				break
			}
		}
		t := p.clock.Add(1)
		p.mu.Lock()
		p.entries = append(p.entries, c32entry{Tick: t, Text: text, Method: method, Inflight: k})
		p.mu.Unlock()
		p.held.Store(true)
		select {
		case <-p.gate:
		case <-time.After(hangBound + 8*time.Second): // never leave the code under test stuck because of the harness
		}
		p.held.Store(false)
		p.inflight.Add(-1)
	} else {
		p.enter(method, text)
	}
	p.exits.Add(1)
	if n <= p.failFirst {
		return errors.New("scripted prompter failure")
	}
	return nil
}

func (p *c32gated) Message(m string) error { return p.invoke("Message", m) }
func (p *c32gated) Prompt(m string) (string, error) {
	if err := p.invoke("Prompt", m); err != nil {
		return "", err
	}
	return "answer to " + m, nil
}

func newRand(seed int64) *rand.Rand { return rand.New(rand.NewSource(seed)) }

type c32special struct {
	Index     int    `json:"round"`
	Kind      string `json:"kind"` // error-first | unregister-in-flight
	FailFirst int    `json:"failing_invocations_first"`
	FirstCall string `json:"first_call"` // Message | Prompt
	Callers   int    `json:"callers"`
	HoldUS    int    `json:"prompter_hold_us"`
	Queued    int    `json:"queued_behind_held_invocation"`
}

func runC32Special(r *vk.Run, sp c32special) (sig string, hang bool) {
	var clock atomic.Int64
	p := &c32gated{gate: make(chan struct{})}
	p.clock, p.holdUS = &clock, sp.HoldUS
	p.holdRng = newRand(int64(sp.Index) + 77)
	p.failFirst = int32(sp.FailFirst)
	if sp.Kind == "unregister-in-flight" {
		p.holdAt = int32(sp.FailFirst + 1)
	}
	id, err := prompting.RegisterPrompter(p)
	if err != nil {
		r.Violation(map[string]string{"check": "register-failed"}, "RegisterPrompter failed: "+err.Error(), sp)
		return "", false
	}
	var mu sync.Mutex
	var calls []c32call
	var wg sync.WaitGroup
	var uCall, uRet atomic.Int64
	call := func(caller int, method string) {
		defer wg.Done()
		defer c32Recover(r, sp)
		text := fmt.Sprintf("s%d-c%d", sp.Index, caller)
		c := c32call{Caller: caller, Method: method, Text: text, Call: clock.Add(1)}
		var err error
		if method == "Message" {
			err = prompting.Message(id, text)
		} else {
			_, err = prompting.Prompt(id, text)
		}
		c.Ret = clock.Add(1)
		if err != nil {
			c.Err = err.Error()
		}
		mu.Lock()
		calls = append(calls, c)
		mu.Unlock()
	}
	settle := func(cond func() bool) {
		// Not a verdict: only arranges the intended order of events.
		for i := 0; i < 20000 && !cond(); i++ {
			if i < 200 {
				runtime.Gosched()
			} else {
				time.Sleep(20 * time.Microsecond)
			}
		}
	}
	caller := 0
	// The failing invocations first, one after the other. They run in their
	// own goroutines: a registry that hands the prompter back twice on the
	// error path may block there, which must not hide what happens next.
	for i := 0; i < sp.FailFirst; i++ {
		m := sp.FirstCall
		if i%2 == 1 {
			m = map[string]string{"Message": "Prompt", "Prompt": "Message"}[m]
		}
		wg.Add(1)
		go call(caller, m)
		caller++
		want := int32(i + 1)
		settle(func() bool { return p.exits.Load() >= want })
		time.Sleep(50 * time.Microsecond)
	}
	unregisterWhileHeld := false
	switch sp.Kind {
	case "error-first":
		start := make(chan struct{})
		for i := 0; i < sp.Callers; i++ {
			wg.Add(1)
			go func(c int) {
				<-start
				call(c, []string{"Prompt", "Message"}[c%2])
			}(caller)
			caller++
		}
		close(start)
		// Unregister only when every call has gone through the prompter or failed.
		wg.Add(1)
		go func() {
			defer wg.Done()
			defer c32Recover(r, sp)
			total := int32(sp.FailFirst + sp.Callers)
			settle(func() bool { return p.exits.Load() >= total })
			uCall.Store(clock.Add(1))
			prompting.UnregisterPrompter(id)
			uRet.Store(clock.Add(1))
		}()
	case "unregister-in-flight":
		// One invocation is held inside the prompter by the harness ...
		wg.Add(1)
		go call(caller, sp.FirstCall)
		caller++
		settle(func() bool { return p.held.Load() })
		// ... others queue up behind it ...
		for i := 0; i < sp.Queued; i++ {
			wg.Add(1)
			go call(caller, []string{"Prompt", "Message"}[i%2])
			caller++
		}
		time.Sleep(300 * time.Microsecond)
		// ... and the prompter is unregistered.
		udone := make(chan struct{})
		wg.Add(1)
		go func() {
			defer wg.Done()
			defer c32Recover(r, sp)
			uCall.Store(clock.Add(1))
			prompting.UnregisterPrompter(id)
			uRet.Store(clock.Add(1))
			close(udone)
		}()
		select {
		case <-udone:
			// Observation only: registry.go documents that pending prompts are
			// cancelled, not that UnregisterPrompter waits for a running one.
			unregisterWhileHeld = p.held.Load()
		case <-time.After(time.Millisecond):
		}
		close(p.gate)
	}
	switch c32health.waitDone(wgChan(&wg), hangBound) {
	case "ok":
	case "hang":
		r.Violation(map[string]string{"check": "call-did-not-return", "scenario": sp.Kind}, "a Message/Prompt/UnregisterPrompter call did not return", map[string]any{"round": sp, "prompter_exits": p.exits.Load()})
		return "", true
	default:
		r.Inconclusive("scheduler-unhealthy")
		return "", true
	}
	witness := func() any {
		return map[string]any{"round": sp, "unregister_call": uCall.Load(), "unregister_return": uRet.Load(), "prompter_entries": p.entries, "calls": calls}
	}
	if m := p.maxSeen.Load(); m > 1 {
		r.Violation(map[string]string{"check": "concurrent-invocation", "scenario": sp.Kind}, fmt.Sprintf("the registered prompter was inside Message/Prompt %d times at once", m), witness())
	}
	ur := uRet.Load()
	after := 0
	for _, e := range p.entries {
		if e.Tick > ur {
			after++
		}
	}
	if after > 0 {
		r.Violation(map[string]string{"check": "invoked-after-unregister", "scenario": sp.Kind}, fmt.Sprintf("%d prompter invocations started after UnregisterPrompter had returned", after), witness())
	}
	served, cancelled := 0, 0
	for _, c := range calls {
		if c.Call > ur && c.Err == "" {
			r.Violation(map[string]string{"check": "late-caller-succeeded", "scenario": sp.Kind}, fmt.Sprintf("%s(%q) was called after UnregisterPrompter had returned and reported success", c.Method, c.Text), witness())
		}
		if c.Err == "" {
			served++
		} else if c.Err != "unable to message: scripted prompter failure" && c.Err != "unable to prompt: scripted prompter failure" {
			cancelled++
		}
	}
	r.Count("special_rounds_"+sp.Kind, 1)
	r.Count("prompter_entries", int64(len(p.entries)))
	r.Count("calls", int64(len(calls)))
	if sp.Kind == "unregister-in-flight" {
		r.Count("queued_calls_cancelled_by_unregister", int64(cancelled))
		r.Count("queued_calls_served_before_unregister_won", int64(served))
		if unregisterWhileHeld {
			r.Count("unregister_returned_while_invocation_running(observation)", 1)
		}
	}
	return fmt.Sprintf("special|%s|fail=%d|%s|served=%d|cancelled=%d", sp.Kind, sp.FailFirst, sp.FirstCall, minInt(served, 3), minInt(cancelled, 3)), false
}

func c32Specials(r *vk.Run) {
	n := r.Pick(240, 6000)
	rng := r.Rand("specials")
	work := make(chan c32special, n)
	for i := 0; i < n; i++ {
		sp := c32special{Index: i, FirstCall: []string{"Message", "Prompt"}[rng.Intn(2)], HoldUS: []int{5, 30, 100, 300}[rng.Intn(4)]}
		if i%2 == 0 {
			sp.Kind, sp.FailFirst, sp.Callers = "error-first", 1+rng.Intn(3), 4+rng.Intn(28)
		} else {
			sp.Kind, sp.FailFirst, sp.Queued = "unregister-in-flight", rng.Intn(2), 1+rng.Intn(24)
		}
		work <- sp
	}
	close(work)
	var wg sync.WaitGroup
	var hangs, sampled atomic.Int64
	for w := 0; w < 6; w++ {
		wg.Add(1)
		go func() {
			defer wg.Done()
			for sp := range work {
				if hangs.Load() >= 2 {
					return
				}
				fmt.Printf("special %s\n", vk.JSON(sp))
				var sig string
				var hang bool
				r.Guard(sp, func() { sig, hang = runC32Special(r, sp) })
				r.Eval(1)
				if hang {
					hangs.Add(1)
					continue
				}
				if sig != "" {
					r.Distinct(sig)
				}
				if sampled.Add(1) <= 2 {
					r.Sample(sp)
				}
			}
		}()
	}
	wg.Wait()
}
