# source this: Go environment for working on the harness by hand
export PATH=/root/go/pkg/mod/golang.org/toolchain@v0.0.1-go1.25.0.linux-amd64/bin:$PATH
export GOTOOLCHAIN=local GOFLAGS=-mod=mod GOPROXY=off CGO_ENABLED=1
unset GOSUMDB
