#!/bin/bash
# sweep.sh <tier> <seed>...: run every registered check at the given seeds; one result line per run
tier=$1; shift
for seed in "$@"; do
  for id in $(python3 -c 'import json; print(" ".join(c["property_id"] for c in json.load(open("/verif/MANIFEST.json"))["checks"]))'); do
    s=$(date +%s)
    out=$(VERIF_SEED=$seed /verif/check $id $tier 2>&1); rc=$?
    echo "$(date +%H:%M:%S) $id $tier seed=$seed rc=$rc wall=$(( $(date +%s) - s ))s $(echo "$out" | grep -a -E '^(VIOLATION|ERROR)' | head -2 | tr '\n' ' ')"
  done
done
