#!/usr/bin/env python3
"""Generates MANIFEST.json from the table below (single source of truth for registered checks)."""
import json, sys
HOOK_COMMITS = ["b5415a2"]
# id: (engine/group, category, technique, text, note, design_ref)
CHECKS = {}
def reg(pid, group, cat, technique, text, note):
    CHECKS[pid] = dict(group=group, cat=cat, technique=technique, text=text, note=note)

L1 = "real core.Reconcile run over every (ancestor, alpha, beta) triple of a bounded shape (41x71x71, all four modes) and seeded random deep triples incl. phantom directories and executability propagation; "
reg("C01","recon","exploration","runtime oracle over real reconciliation plans (lost-content rule, conflict presence) + real sessions on disk",
    L1+"oracle: everything a two-way-safe plan removes or replaces equals the last-synchronized state, and both-modified paths carry a conflict and no change. Held on the executions observed; nothing is proved. Also real sessions (real Manager, local endpoints, roots on disk, incl. staging on another device and entry limits) through random edit histories judged against the monitor's own shadow of the last agreement.",
    "trusts the harness's independent tree walkers (shallow equality, first-disagreement walk, Lost set) and core.Diff (itself checked by C07)")
reg("C02","recon","exploration","runtime oracle over real reconciliation plans (direction, protected side)",
    L1+"oracle: one-way plans hold no alpha change; one-way-safe never loses modified beta content; two-way-resolved never loses modified alpha content. Also: a real local endpoint created as the alpha side of a one-way session must refuse every Stage/Transition request and leave its root, its neighbourhood and the staging area untouched; and real one-way sessions on disk.",
    "trusts the harness's tree walkers; endpoint-level refusal of Stage/Transition on a one-way alpha is exercised by the L3 session histories when present")
reg("C03","recon","exploration","runtime oracle over real reconciliation plans (no unsynchronizable content under a change, totality at disagreement paths)",
    L1+"oracle: no change has untracked/problematic/phantom content at or below it on its endpoint; every first-disagreement path gets exactly the action its mode allows; problematic paths get none. Also real sessions with ignored files, FIFOs, non-UTF-8 names and unportable links whose parents are deleted or retyped on the other side.",
    "trusts the harness's first-disagreement walk")
reg("C04","recon","exploration","runtime oracle: ideal application of each real plan followed by a second real reconciliation (fixpoint, convergence)",
    L1+"each plan is applied ideally by the harness and reconciled again with the real code: the second plan must be empty and two-way endpoints must agree outside conflicts and unsynchronizable paths. Also the real controller through scripted endpoints (follow-up cycle must neither stage nor transition nor change the archive) and real sessions on disk (per-cycle re-reconciliation of the archive on disk against fresh scans).",
    "ideal application is performed by the harness (gen.Set) and by the real core.Apply for the ancestor")
reg("C05","recon","fault_enumeration","enumeration of per-change transition outcomes composed through the real core.Apply",
    "for plans with 1..3 changes every assignment of outcomes {nothing, each prefix-closed sub-tree of new, each prefix-closed sub-tree of current} is folded into the ancestor with the real Apply in controller order; it must succeed, validate, and record each reported result exactly. Also through the real controller (scripted endpoints): the archive loaded from disk must record exactly what each endpoint reported, including cycles halted by a real Pause while Transition is in flight (results returned only after the cancellation of the synchronize context was observed).",
    "composition order is copied from controller.synchronize; a reordering inside the controller itself is only visible to the controller-level (L2) monitor")
reg("C06","recon","exploration","runtime oracle over real reconciliation plans (action disjointness, conflict well-formedness)",
    L1+"oracle: no two actions at equal or nested paths across alpha changes, beta changes and conflict roots; conflicts valid, two-sided, rooted at a first-disagreement path with inner changes beneath.",
    "trusts the harness's path-prefix test")
reg("C07","recon","exploration","reference-model comparison (independent deep equality, filter, count, copy aliasing probe)",
    "Diff/Apply round trip, Diff(t,t)=0, Equal vs independent comparison, four copy behaviours compared with a proto.Clone taken before mutating the original, synchronizable filter and Count vs an independent recursive filter, over all pairs of a 74-entry alphabet and seeded random deep pairs; Apply must leave its base and the change list it is given untouched (incl. later changes landing inside an earlier change's content).",
    "uses the verif-tagged export VerifSynchronizable")
reg("C16","recon","exploration","reference-model comparison (lexical POSIX resolution) over an exhaustively enumerated target space",
    "every target over tokens {name, ., .., empty} up to length 6 (quick) / 8 (thorough) at link depths 0..3, plus random long and hostile targets: accepted implies the reference resolves inside the root; empty/absolute/over-long/colon/backslash targets rejected.",
    "uses the verif-tagged export VerifNormalizeSymbolicLink; lexical resolution (name components that are themselves links are outside the stated property)")
reg("C18","recon","exploration","runtime invariant over simulated multi-cycle histories driving the real PropagateExecutability and Reconcile",
    "random histories of edits/chmods on a preserving and a non-preserving endpoint, all modes and both role assignments: no plan changes the preserving side's bit where its content is unmodified or equal to the incoming content; the propagated tree takes bits only from matching content. Also through the real controller with exactly one preserving scripted endpoint (transitions sent to it and bits recorded in the archive).",
    "endpoints are simulated (ideal transitions, non-preserving snapshot reports executable=false)")

reg("C14","ignore","exploration","reference-model comparison (independent last-match-wins matcher) + real scans watched by an inotify sensor",
    "the real Mutagen-style Ignorer vs an independent reference over 2*10^5 (quick) random (pattern list, path, dir flag) cases from a restricted glob grammar; real scans of random trees with those patterns: an ignored directory is one untracked entry, nothing beneath it is in the snapshot or digest cache, inotify records no open/access inside ignored directories (control directories must record them), VCS directories untracked at every depth. Also accelerated rescans (baseline + ignore cache, recheck = parent only / the entry itself) after an entry changed kind.",
    "the reference matcher is the harness's own for the unambiguous sub-grammar; one disagreement class rooted in the pinned doublestar dependency is a recorded known finding (negated classes matching '/')")
reg("C15","ignore","exploration","reference-model comparison against a frozen copy of the upstream moby pattern matcher + Docker's directory-walk rule",
    "random .dockerignore lists x random trees: real dockerignore.NewIgnorer -> core.Scan -> ReifyPhantomDirectories (nil and populated ancestor) vs the frozen upstream matcher with the build-context walk; every disagreeing path is classified with a second model (mutagen's documented algorithm): equal to it = the recorded known finding (no parent inheritance), different = new violation. Also accelerated rescans with the previous ignore cache for re-inclusions several levels below an excluded directory.",
    "frozen copy of patternmatcher.go (Apache-2.0) under internal/ignorex; pattern grammar restricted to what both sides define (no backslashes, comments)")

reg("C08","fsops","exploration","disk re-observation after the real core.Transition with interference injected between scan and transition",
    "random disk trees -> real core.Scan -> plan from the snapshot -> interference on planned paths (edit with unique token, same-size edit, chmod, new inode with equal size+mtime, link retarget, new child in a directory to be removed, file->directory, objects appearing at creation paths) -> real core.Transition; every interfered object must be exactly as the interference left it and a problem reported; non-interfered transitions must be carried out. Also as uid 65534. Also multi-scan sequences (stale cache entries), sub-second mtime changes, long link targets, temporary-named children (the real temporary-name families of the code base: cross-device-rename, atomic-write, staging, probe files; top level and one level deeper), and the same cycle at the endpoint level with the poll watcher rescanning between Scan and Transition.",
    "interference during (not before) the transition - the check-then-act windows the repository documents - is not attacked")
reg("C12","fsops","exploration","reference-model comparison: real core.Scan vs an independent lstat/readdir/readlink/sha1 walker",
    "random trees (files, modes incl. group/other-only x bits, links of every portability class, FIFOs, non-UTF-8 names, temporary names, ignored names) x 3 symlink modes x 2 permissions modes x 2 probe modes; entries, digests, executability, link targets, untracked/problematic classification, four counters and the digest cache must agree; mode-000 content judged in an unprivileged child. Interrupted hashing: a counting hasher appends to / truncates the file in flight or cancels the scan at a seeded Write; the rest of that scan and the next scan with the same hasher must agree with the walker.",
    "ext4 preserves executability and does not decompose Unicode, so those two behaviours are observed with one value only")
reg("C13","fsops","exploration","differential runtime comparison: accelerated real scans vs cold real scans over multi-step edit histories",
    "histories of random edits (incl. single-attribute edits, kind changes, empty-directory swaps, renames); after each step the accelerated scan (previous accelerated state, recheck = changed paths) must be proto.Equal to a cold scan incl. counters; accelerated outputs feed the next step; both ignore syntaxes. Root-only recheck sets ({\"\"}) on single-file roots and on directory roots (creations/deletions reported on the root, as fanotify does).",
    "precondition enforced by the harness: every content change alters inode, size or mtime (inode-reuse trap guarded); cold scans are tied to the independent walker by C12")
reg("C17","fsops","exploration","inotify sensor on a canary tree outside the root + content re-observation",
    "roots with links into a watched canary tree and directories swapped for such links between scan and operation (also racing scans); operations: core.Scan (3 link modes), core.Transition plans crossing the link, rsync transmit and receive, local endpoint Stage/Transition; zero inotify events and unchanged canary required, crossing must be reported; control accesses prove the sensor is live.",
    "stat through a link raises no inotify event and is outside the property's verb list")
reg("C11","ctrl","exploration","journal invariants over scripted endpoints driven by the real Manager/controller",
    "scripted snapshots for every root-level situation (nil/file/problematic/directory with 0-3 entries per side, preset ancestor) x 4 modes through the real controller: cycles whose inputs show root deletion, root type change or one-sided emptying contain no Stage/Transition call, the session lists a halted status, a waited flush fails, only Resume produces new scans.",
    "endpoints are scripted, so 'neither root changed' is observed as 'no Stage/Supply/Transition call'; must-halt is decided from the inputs by the monitor's own rule")
reg("C29","ctrl","exploration","history checking over a journal of scripted-endpoint calls and session files (interval overlap, ordering)",
    "random concurrent interleavings of Create/Pause/Resume/Flush/Reset/Terminate/manager restart against journaling scripted endpoints with random latencies: no endpoint call executes inside a (Pause returned, Resume called) interval; paused state survives restart; a successful waited flush has a full scan started after the request and a completed cycle before return; terminated sessions leave no files and no later calls; reset keeps root content (real local roots). Race detector on.",
    "a pause interval is judged only when no Resume overlaps the Pause; restarts happen with no command in flight")
reg("C40","ctrl","exploration","reference-model comparison (independent selector evaluator, reference path ordering)",
    "real Manager with 0-40 paused sessions, random names/labels: List by identifiers, names and label selectors (restricted grammar) returns exactly the reference's set in creation order and fails on a miss; crafted creation times (stored session records rewritten from a seeded grid while no manager is alive, incl. later seconds with smaller nanoseconds and equal times; fresh manager loads them) must be listed in (seconds, nanoseconds) order; conflict/problem lists sorted depth-first and truncated with exact excluded counts; fastpath.Less vs a component-wise comparator incl. strict-weak-order laws.",
    "identifier-prefix specifications are not exercised")

reg("C30","statex","exploration","linearizability checking (porcupine counter model) of recorded client-boundary histories + monotonicity and bounded-progress checks",
    "goroutines mix NotifyOfChange, TrackingLock Lock/Unlock, WaitForChange(prev in {0, stale, current, future}), cancellation and Terminate on the real Tracker under -race and GOMAXPROCS 16/4/2; each short history is checked for per-caller index monotonicity, unlock counting, linearizability against a counter model of tracker.go's contract, and control-relative bounded progress at quiescence.",
    "checker timeout or an unhealthy heartbeat makes a case inconclusive, never a violation; 'never misses' is restated as bounded progress")
reg("C31","statex","exploration","journal checking of strobe/signal times against a sound upper bound and a control-relative no-loss bound",
    "strobe bursts with gaps around the window (0.2x-3x), windows 1-50 ms, with/without consumer, termination at random points on the real Coalescer: signals <= [n>0] + #{i: r_(i+1) - s_i >= window}; never a second buffered signal; after the last strobe a signal arrives within the control-relative bound; Strobe never blocks after Terminate.",
    "'eventually delivered' restated as delivery within a bound during which a control timer of the same window fired >= 50 times and the heartbeat stayed healthy")
reg("C32","statex","exploration","journaling prompter (in-flight counter, entry ticks vs unregistration return) + frozen suffix specification",
    "16-64 goroutines call prompting.Message/Prompt while another unregisters the prompter: never two invocations at once, none entered after UnregisterPrompter returned, late callers get an error; response mode through the verif hook for every single-character edit of the four documented suffixes and random prompts is echo iff the prompt ends with one of them.",
    "uses the verif-tagged export VerifDetermineResponseMode")
reg("C33","fwd","exploration","conservation checking of position-derived byte patterns + journal of Close/CloseWrite + statistics comparison",
    "ForwardAndClose over unix socket pairs with journaling wrappers (all half-close orders, faults and cancellation at byte offsets): each direction delivers exactly the other side's pattern and EOF iff half-closed, both connections closed, the call returns (control-relative); through the real forwarding Manager with scripted endpoints: TotalConnections, Total{Out,In}boundData and OpenConnections match what the harness handed out and moved.",
    "exact totals are demanded for fault-free connections only (the auditor may lag after an early return)")
reg("C34","fwd","fault_enumeration","enumeration of every byte corruption and truncation point of the handshake exchange through a relay",
    "real client and server halves of the agent magic-number and version handshakes through a relay: clean run accepted by both; scripted different-version and wrong-magic peers rejected; for every byte index of each direction a flip (16 values quick, 255 thorough) or truncation makes the half that received damaged bytes fail; no half returns nil having consumed anything but the expected bytes.",
    "a side that finished before the damage is not required to fail retroactively (counted, not judged)")

reg("C27","procs","fault_enumeration","strace-injected SIGKILL / errno at every syscall of the atomic write in a child process, target re-read afterwards",
    "a child writes `old`, then between marker syscalls calls the real WriteFileAtomic / MarshalAndSaveProtobuf with `new`; for every syscall index in the bracket (openat, write, close, fchmodat, renameat, and the clean-up path) one run is killed just before it and one gets an errno (zero-byte and RLIMIT_FSIZE short writes too), plus second-order faults in the failure path: the target is exactly old or exactly new, consistent with what the child reported, and only Mutagen temporaries are left.",
    "process crash, not power loss; an injection that the run's own strace log does not show inside the bracket is inconclusive")
reg("C28","procs","fault_enumeration","interval-overlap checking of a cross-process CLOCK_MONOTONIC journal + porcupine lock model, with random SIGKILLs",
    "8 (quick) / 32 (thorough) child processes race the real daemon.AcquireLock on one data directory, write and re-read a pid cell while holding, release or get SIGKILLed: definite-hold intervals never overlap, a foreign pid is never seen while holding, every refusal overlaps a possible hold of another process, and the history is linearizable against a lock model in which killed-in-flight attempts may or may not have acquired.",
    "bounded by acquisition counts; a porcupine timeout is inconclusive for the cross-check only")
reg("C35","procs","exploration","process-state observation after the real transport stream Close on fake agents with four termination behaviours",
    "transport.NewStream over exec.Cmd of a fake agent that exits by itself / on stdin close / on SIGTERM only / never: Close must return within a control-relative bound and the pid must be gone (kill(pid,0)=ESRCH); latency recorded, not judged.",
    "'always returns' restated as return within up to five 30 s windows with a healthy heartbeat")
reg("C36","procs","exploration","recording fake ssh/scp/docker executables + argv parsing with each tool's documented option grammar",
    "random SSH and Docker URLs whose user/host/container start with '-' or look like options -> real url.Parse/EnsureValid -> real transports (Command, Copy, probing) with recorders on PATH: either the URL/transport is rejected and no recorder ran, or every recorded argv parses (getopt for ssh/scp, pflag rules for docker exec/cp/stop/start) to exactly the intended options with the URL components as operands. Both possible repairs (reject, or `--`) are accepted; partial repairs are reported.",
    "option grammars of ssh, scp and docker are modelled by the harness (scp checked against /usr/bin/scp)")
reg("C43","procs","exploration","disk re-observation after the real Housekeep on a populated scratch data directory with a watched canary outside",
    "agent versions, caches and staging roots with atime/mtime set to threshold +- {1 h, 1 d, 10 d} and to time stamps in the future, symlinks pointing to a canary tree outside, unrelated files: after housekeeping.Housekeep() stale artifacts are gone, recent ones intact, the canary and everything outside the data directory untouched (content snapshot + inotify with a liveness control).",
    "times are never closer than 1 h to a threshold, so clock drift during the run is irrelevant")
reg("C46","procs","exploration","child-process probe of the real ExecutableForPlatform over generated bundle layouts",
    "the monitor copies itself to <scratch>/bin and builds tar.gz bundles with distinct per-platform payloads in the executable's directory, in libexec, in both or in neither: the extracted bytes are the executable-directory bundle's entry when that bundle exists, else libexec's; unknown platforms and missing bundles are errors; the extracted file is executable.",
    "layouts use the FHS bin/libexec convention the code looks for")

reg("C23","mux","exploration","conservation checking of position-derived byte patterns over two real multiplexers + independent wire-protocol monitor, race detector on",
    "2-64 concurrent bidirectional streams over in-memory carriers with random chunking, windows {1..65535}, 1-5 write buffers, backlogs {1,2,10}, varied GOMAXPROCS: bytes read are exactly the first sum(n) bytes of the (stream, direction, position)-derived pattern, EOF only after the peer's CloseWrite/Close was issued and everything written before was read; an independent decoder checks every wire message for protocol conformance.",
    "reach is the interleavings that occurred (distinct wire message-kind orders are counted); a clean race-detector run covers those interleavings only")
reg("C24","mux","exploration","random public-API programs on both multiplexers + liveness check + independent wire-protocol monitor, race detector on",
    "directed and random programs of public calls only (open with/without cancelled contexts incl. concurrent opens, accept, Read with buffers of size 0..64 KiB, zero-length writes, CloseWrite, Close, all deadline setters, opens beyond the backlog, reads after EOF, writes after remote close): afterwards both multiplexers are alive with nil internal error and the wire monitor flagged nothing.",
    "a call that never returns is inconclusive here (hangs are C25's claim)")
reg("C25","mux","exploration","journal of (call, enabling event, return) with a control-relative watchdog",
    "scenarios: reader stalled forever on one stream while another moves 8 MiB; writers blocked on a zero window released by deadline / local close / multiplexer close; opens against a peer that never accepts (beyond the backlog must be rejected); accept/open with cancelled contexts; deadlines set by another goroutine: every blocked call returns within the bound after its enabling event is recorded.",
    "'never hangs' restated as bounded progress relative to a heartbeat; an unhealthy heartbeat makes the case inconclusive")
reg("C26","mux","exploration","reference-model comparison (slice-backed FIFO) over exhaustively enumerated operation sequences",
    "every sequence of up to 5-6 (quick) / 6-8 (thorough) operations from a 24-operation alphabet (Write, WriteByte, Read, ReadByte, ReadNFrom with short/EOF/error readers, WriteTo with short/failing writers, Reset) for capacities 0..3, plus random 10^4-operation sequences on capacities up to 70000: results, Used/Free/Size and drained contents agree with the model.",
    "sequence enumeration copies ring.Buffer by its (start-up verified) memory layout to branch cheaply")

reg("C19","rsyncx","exploration","round-trip oracle over an exhaustively enumerated input space of the real rsync engine",
    "all base/target strings over {a,b} up to length 6 (quick) / 8 (thorough) x every block size x maximum data-operation sizes {1,2,3,5,default}: Patch(base, Deltify(target)) == target, every operation valid and within bounds, literal operations within the limit, no literal data for an unchanged target; streaming Deltify with short reads; random inputs up to 4 MiB with splices; both tiers: every base/target pair of length exactly 8 with block size 4 (the smallest shape over {a,b} with colliding weak checksums).",
    "exhaustive only within the stated bound")
reg("C20","rsyncx","fault_enumeration","enumeration of a transmit failure at every operation index (transient and persistent) through Deltify and Transmit",
    "inputs built to reach all seven transmit sites; for every operation index k the transmitter fails once or from k on: either the sender returns an error or the receiver reconstructs exactly the target; same through rsync.Transmit with an encoding receiver feeding a real receiver. The run refuses a verdict if a site was never faulted.",
    "one fault schedule per run (once at k, or always from k)")
reg("C38","misc","exploration","round-trip oracle over grammar-generated URL strings",
    "2*10^5 (quick) / 10^7 (thorough) strings from a grammar covering users, hosts, ports with leading zeros, Windows and home-relative paths, forwarding endpoints and docker:// in mixed case, both kinds: Parse ok implies EnsureValid nil and Parse(Format()) equal to the first result.",
    "Docker environment variables are fixed during the run")
reg("C39","misc","exploration","scripted crypto/rand.Reader driving the real identifier generator + exact collision map",
    "identifier.New driven with structured 32-byte values (all-zero, every leading-zero length, 62^k +- 1 boundaries, digit runs, single bits, all-0xff) and random draws: documented prefix and length, IsValid, truncated form is a prefix, distinct inputs give distinct identifiers; names: UUID-shaped and reserved words rejected, random Unicode names judged by the documented rule.",
    "crypto/rand.Reader is replaced inside the monitor process only")
reg("C44","misc","exploration","capturing sink + line-structure oracle over random messages and relayed byte streams",
    "random messages and relayed streams through Logger.Writer containing newlines, carriage returns, ESC sequences, forged prefixes, random fragmentation: every record passing the level filter is exactly one sink write ending in one newline with no other newline, carriage return or escape, with timestamp, level letter and scope; filtered records produce nothing.",
    "a relayed line of a disabled-level logger is treated as optional (unspecified)")
reg("C45","misc","exploration","reference-model comparison (slice model) over exhaustively enumerated operation sequences",
    "all Add/Get/Remove(/Len) sequences over 3 keys up to length 6-7 (quick) / 8-9 (thorough) for capacities 0..3 plus random long sequences: results, Len after every step and the eviction-callback log (exactly once per departing entry, least recently used first) agree with the model.",
    "capacity 0 = unlimited and Remove fires the callback, as documented")
reg("C47","misc","exploration","contract oracles for each stream helper with scripted short-writing/failing downstreams, race detector on",
    "cutoff writer (exactly the first N bytes downstream, later bytes reported written), line processor (lines split at newline, one trailing CR trimmed, any fragmentation, overflow at the configured size), hashing writer (digest of exactly the accepted bytes), preemptable writer (stops within its check interval), valve (nothing after Shut, callers see success), multi-closer (each closed once, first error); concurrent variants under -race.",
    "each helper is held to its doc comment")

reg("C09","fsfault","fault_enumeration","strace errno injection at every filesystem syscall of a real transition in a child process, cold re-scan compared with the reported results",
    "child: random tree, real scan, staged files (same device and tmpfs for a real cross-device rename), ownership configured in some plans, real core.Transition of 3-6 changes between marker syscalls, cold scan, comparison with Apply(pre-scan, results); parent: baseline strace, then one run per syscall index with a failure errno (EXDEV & co. on renames); in-process: staged file missing, provider errors, provider removing the file, cancellation before / inside the k-th Provide / on a timer. Coverage is counted as distinct (syscall, object role) pairs hit.",
    "one fault per run in quick (second-order fault windows in thorough); only failure errnos are injected (fact-stating errnos such as ENOENT are not faults); an injection not visible inside the bracket is inconclusive")
reg("C10","fsfault","exploration","disk re-observation (sha1) after the real local endpoint's Stage/Transition fed with corrupted, truncated, altered or aborted transfers",
    "the real local endpoint as beta; the harness is the peer: sources changed after the plan was made, scripted operation streams that drop/duplicate/alter operations or abort at operation k, nothing sent, leftovers of an interrupted earlier round, locally sourced copies modified between scan and stage; after Transition every path whose result claims the planned file has the planned digest, bad data never reaches the root and is reported as missing.",
    "a stray file planted at an exact staged address is not built")
reg("C41","fsfault","exploration","reference comparison of the real local endpoint's Stage answers (independent sha1 bookkeeping) + entry-limit and call-order probes",
    "roots with duplicates, renames/copies since the scan, pre-staged content: the returned paths are a subsequence of the request and a path is omitted iff already staged or available in the root by digest; with a maximum entry count no scan/stage/transition sequence exceeds it, the over-limit transition reports a problem and changes nothing; Stage or Transition twice without a Scan is refused.",
    "the disk-limit assertion applies only when nothing was edited since the last successful scan")
reg("C42","fsfault","exploration","real local endpoint with force-poll watching: scans after transitions compared with the independent walker, Poll returns under a control-relative bound; race detector on",
    "polling interval 1 s, accelerated scans: after every changing Transition the next Scan (immediately and at offsets across the polling tick) equals the walker's view of the quiescent disk; external edits and immediate reversals of a transition make Poll return within 2 intervals + control-relative slack, also after a poll scan that failed (root temporarily a symbolic link).",
    "'eventually notices' restated as a bound relative to a heartbeat; unhealthy heartbeat = inconclusive")

reg("C21","remote","exploration","differential runtime comparison: the same random endpoint program on a local endpoint and on client<->server over a fragmenting in-memory pipe; race detector on",
    "mirrored roots; four real endpoints per program (local and remote alpha/beta, none/deflate compression, random valid configurations); steps: mirrored disk edits, Scan (walked/previous/foreign ancestors), Stage (incl. wrong digests, missing sources, empty requests, misuse), Supply, Transition planned with the real Reconcile (incl. stale plans); large-snapshot and root-kind programs: snapshots (proto.Equal incl. counters/flags), required paths, signatures, captured transmissions, results, problems (multiset), missing-files flag and error presence must be equal. Acceleration probes: with force-poll watching and a 24 h interval the accelerated state is first observed (a regular scan must not see a fresh file), then full scans on both sides must see it and be equal.",
    "error values are compared for presence; texts after normalizing per-side root and session id; requests whose answer depends on Go map order are not issued; a FIFO at a staged path (blocks openat, outside this property) is avoided")
reg("C22","remote","exploration","event-driven starvation oracle on a fragmenting pipe that knows when its reader is blocked; race detector on",
    "the writer/reader stacks are built exactly as the endpoints build them (encoder, bufio, compressor, bufio, multi-flusher), both algorithms, real protocol message types from empty to >= 1 MiB with random flush points: after each flush every written message must be decoded before the reader blocks on an empty pipe; decoded sequence equals written sequence; declared sizes above the limit are rejected without reading or allocating the body (liveness control: a legal 32 MiB prefix).",
    "no timeout is involved in the verdict; acceptance exactly at the limit is not asserted")
reg("C37","remote","exploration","pruned product of configuration domains through the real creation handler, reference merge, and real endpoint initialization",
    "per-field cubes, the full permission-group product, all slot pairs and random combinations (1.7*10^5 quick) for session, alpha and beta configurations: what the real Server.Create accepts must merge (protoreflect reference: endpoint value unless default, ignores concatenated) into configurations that pass EnsureValid(false), that the real local.NewEndpoint and the real remote handshake accept (about 450 combinations x 2 sides), with no executable default file mode under portable permissions; every supported mode round-trips through text.",
    "candidates are pre-filtered with Configuration.EnsureValid and every violation is confirmed against the real handler")

NOT_APPLICABLE = {}
def main():
    props=[json.loads(l)["id"] for l in open("/verif/properties.jsonl")]
    checks=[]
    for pid in props:
        if pid not in CHECKS:
            NOT_APPLICABLE.setdefault(pid, "check not registered yet in this revision of the framework (the design covers it; see DESIGN.md section 5)")
            continue
        c=CHECKS[pid]
        checks.append({
            "property_id": pid,
            "quick_cmd": f"./check {pid} quick",
            "thorough_cmd": f"./check {pid} thorough",
            "evidence_file": f"/verif/evidence/{pid}.json",
            "replay_cmd_template": "./check replay {path}",
            "engine": c["group"],
            "level_claimed": {"category": c["cat"], "text": c["text"], "design_ref": f"DESIGN.md section 5, {pid}"},
            "level_note": c["note"],
            "technique": c["technique"],
        })
    groups=sorted(set(c["group"] for c in CHECKS.values()))
    m={
        "version": 1,
        "setup_cmd": "./check build",
        "hooks": {
            "guard": "verif",
            "enable": "go build -tags verif (the harness module replaces github.com/mutagen-io/mutagen with /repo, so every check recompiles /repo's working tree with the tag on)",
            "baseline_off_cmd": "/verif/baseline_off.sh",
            "source_commits": HOOK_COMMITS,
            "add_only": True,
        },
        "engines": [{"name": g, "path": f"/verif/harness/monitors/{g}", "serves_properties": [p for p in props if p in CHECKS and CHECKS[p]["group"]==g], "kind_free_text": "Go runtime monitor built against /repo with -tags verif; runs the real code under generated workloads and decides with deterministic oracles"} for g in groups],
        "checks": checks,
        "notes": "Technique family: runtime monitoring and sanitizers. Every check rebuilds its monitor against /repo's working tree, runs it as a child under a watchdog, prints VIOLATION/KNOWN-FINDING lines and rewrites its evidence file. known_findings.json lists recorded and repaired genuine defects.",
        "not_applicable": [{"property_id": p, "reason": r} for p,r in sorted(NOT_APPLICABLE.items())],
    }
    json.dump(m, open("/verif/MANIFEST.json","w"), indent=1)
    print(f"checks={len(checks)} not_applicable={len(NOT_APPLICABLE)}")
main()
