#!/bin/bash
# Runs the repository's baseline test suite with the verif guard OFF and checks that every
# test listed as stable in /root/.vp/BASELINE.json passes. Exit 0 iff all stable tests pass.
. /verif/env.sh
cd /repo || exit 3
OUT=${1:-/var/tmp/verif-baseline.json}
go test -json -vet=off -count=1 -timeout 25m ./... > "$OUT" 2>/var/tmp/verif-baseline.err
python3 - "$OUT" <<'PY'
import json,sys
passed=set(); failed=set()
for l in open(sys.argv[1]):
    try: e=json.loads(l)
    except Exception: continue
    if e.get("Test") and e.get("Action") in ("pass","fail"):
        k=e["Package"]+"::"+e["Test"]
        (passed if e["Action"]=="pass" else failed).add(k)
stable=json.load(open("/root/.vp/BASELINE.json"))["stable_pass"]
missing=[t for t in stable if t not in passed]
print(f"stable={len(stable)} passed_stable={len(stable)-len(missing)} failed_total={len(failed)}")
for t in missing[:40]: print("NOT PASSING:",t)
sys.exit(1 if missing else 0)
PY
